package main

import (
	"fmt"
	"go/constant"
	"go/token"
	"go/types"
	"math"
	"os"
	"strings"
	"sync"
	"time"

	"golang.org/x/tools/go/ssa"
)

var hotspots map[string]int
var hotMu sync.Mutex
var hotSamples int

func termStr(t *Term, d int) string {
	if t.Const {
		return constStr(t)
	}
	if t.Op == "var" {
		return t.Name
	}
	if d == 0 {
		return "..."
	}
	s := "(" + t.Op
	for _, a := range t.Args {
		s += " " + termStr(a, d-1)
	}
	return s + ")"
}

type pathEnd struct {
	kind string // "done", "panic", "infeasible", "unsupported", "truncated", "assume"
	msg  string
}

type frame struct {
	fn          *ssa.Function
	block       *ssa.BasicBlock
	prev        *ssa.BasicBlock
	env         map[ssa.Value]value
	locals      []value
	defers      []func()
	result      value
	phiOverride map[*ssa.Phi]value
}

type Engine struct {
	prog      *ssa.Program
	globals   map[*ssa.Global]*value
	solver    *Solver
	fpSolver  *Solver
	initDone  map[*ssa.Package]bool
	initAllow map[string]bool
	ext       map[string]func(e *Engine, fr *frame, args []value) value

	// per path
	pc        []*Term
	facts     map[int]bool
	decisions []int
	prefix    []int
	work      [][]int
	steps     int
	depth     int
	nondets   []*Term
	fails     []string
	covers    map[string]bool
	knowns    map[string]*Term

	threads               []*thread
	cur                   *thread
	preempts, maxPreempts int
	aborting              bool
	endReq                *pathEnd
	goPanic               interface{}
	syncVC                map[interface{}]vclock
	cells                 map[interface{}]*cellHist
	racesSeen             map[string]bool
	curInstr              ssa.Instruction
	fnInfos               map[*ssa.Function]*fnInfo
	Merges                int
	noMerge               bool
	memYield              bool
	localCells            map[*value]bool
	skippedInit           []string
	onces                 map[*value]bool
	ws                    map[*value]interface{}
	mutexes               map[*value]*mutexState
	wgs                   map[*value]*wgState
	chanSeq               int
	model                 map[string]uint64
	ModelHits             int
	pathFP                bool
	fpScanned             int
	started               map[*Solver]bool

	// stats
	Paths, Instrs, Forks  int
	DonePaths, Nontrivial int
	ends                  map[string]int
	allCovers             map[string]bool
	maxSteps              int

	ctx            *TermCtx
	params         map[string]int
	knownIDs       map[string]bool
	seed           int
	nondetList     []*nondetInfo
	nondetByName   map[string]*nondetInfo
	obs            []obsRec
	findings       []*Finding
	witnesses      []*Witness
	witnessQuota   int
	modelMemo      map[*Term]uint64
	assertsChecked int
	finalQueries   int
	crossCheck     func(e *Engine, c *Term, r string)
	xSpent, xBudget time.Duration // wall time spent in / allowed for the cross-check solver (per worker)
	funcsSeen      map[*ssa.Function]bool
	repoFuncs      map[string]bool
	engineErrors   []string
	maxThreads     int
	pinned         map[string]string
	deadline       time.Time
	objs           map[interface{}]interface{}
	clock          int64
	timers         []*timerObj
	timerFires     int
	slept          []*Term
	inClassify     bool
	choices        []int
	varRange       map[*Term]rng
	rangeMemo      map[*Term]rng
	RangeHits      int
	initGlobals    map[*ssa.Package]map[*ssa.Global]bool
	initDeny       map[string]bool
	detSched       bool
	preemptIn      []string
	xSolver        *Solver
	CrossChecked   int
	CrossMismatch  int
	preemptOK      map[*ssa.Function]bool
	harnessFn      map[*ssa.Function]bool
	snapshot_      *initSnapshot
	snapshotUnsafe bool
	pathCopier     *copier
	lastPanicWhere string
	fnMetas        map[*ssa.Function]*fnMeta
	stubs          map[string]value
	inStub         map[string]bool
	violCounter    *int64
	pinMode        bool
	pinChoices     []int
	pinModel       map[string]uint64
	pinMemo        map[*Term]uint64
}

func (e *Engine) end(kind, msg string) {
	if e.cur != nil && e.cur.id != 0 {
		e.endFromThread(pathEnd{kind, msg})
	}
	panic(pathEnd{kind, msg})
}

func (e *Engine) known(c *Term) (bool, bool) {
	if c.Const {
		return c.V == 1, true
	}
	if v, ok := e.facts[c.id]; ok {
		return v, true
	}
	if c.Op == "not" {
		if v, ok := e.facts[c.Args[0].id]; ok {
			return !v, true
		}
	}
	if v, ok := e.rangeDecide(c); ok {
		e.RangeHits++
		return v, true
	}
	return false, false
}

func (e *Engine) addFact(c *Term, v bool) {
	if c.Const {
		return
	}
	e.noteRangeFact(c, v)
	if c.Op == "not" {
		e.addFact(c.Args[0], !v)
		return
	}
	e.facts[c.id] = v
	if v {
		e.pc = append(e.pc, c)
		if c.Op == "and" {
			e.addFactQuiet(c.Args[0], true)
			e.addFactQuiet(c.Args[1], true)
		}
	} else {
		e.pc = append(e.pc, Not(c))
		if c.Op == "or" {
			e.addFactQuiet(c.Args[0], false)
			e.addFactQuiet(c.Args[1], false)
		}
	}
}
func (e *Engine) addFactQuiet(c *Term, v bool) {
	if c.Const {
		return
	}
	if c.Op == "not" {
		e.addFactQuiet(c.Args[0], !v)
		return
	}
	e.facts[c.id] = v
}

func usesFP(t *Term, seen map[*Term]bool) bool { return t.fp }

func (e *Engine) check(extra *Term, wantModel bool) (string, map[string]uint64) {
	s := e.solver
	if !e.pathFP {
		seen := map[*Term]bool{}
		if usesFP(extra, seen) {
			e.pathFP = true
		}
		for _, a := range e.pc[e.fpScanned:] {
			if usesFP(a, seen) {
				e.pathFP = true
			}
		}
		e.fpScanned = len(e.pc)
	}
	if e.pathFP {
		if e.fpSolver == nil {
			e.fpSolver = NewSolver("cvc5")
		}
		s = e.fpSolver
	}
	if !e.started[s] {
		s.Reset()
		e.started[s] = true
	}
	for ; s.sent < len(e.pc); s.sent++ {
		s.Assert(e.pc[s.sent])
	}
	var vars []*Term
	if wantModel {
		vars = e.nondets
	}
	return s.Check(extra, vars)
}

func (e *Engine) feasible(c *Term) bool {
	r, _ := e.check(c, false)
	return r != "unsat"
}

// decide resolves a symbolic condition, forking when both outcomes are feasible.
// The current model of the path condition (if any) tells which side is certainly
// feasible, so only the other side needs a query.
func (e *Engine) decide(c *Term) bool {
	if v, ok := e.known(c); ok {
		return v
	}
	k := len(e.decisions)
	var take bool
	if e.pinMode {
		v, ok := evalTerm(c, e.pinModel, e.pinMemo)
		if ok {
			take = v == 1
		} else {
			r, _ := e.check(c, false)
			take = r != "unsat"
		}
		if take {
			e.decisions = append(e.decisions, 1)
		} else {
			e.decisions = append(e.decisions, 0)
		}
		e.addFact(c, take)
		return take
	}
	if k < len(e.prefix) {
		take = e.prefix[k] == 1
		if e.model != nil {
			if v, ok := e.evalModel(c); !ok || (v == 1) != take {
				e.setModel(nil)
			}
		}
	} else {
		var ft, ff, haveT, haveF bool
		if e.model != nil {
			if v, ok := e.evalModel(c); ok {
				e.ModelHits++
				if v == 1 {
					ft, haveT = true, true
				} else {
					ff, haveF = true, true
				}
			}
		}
		var mT, mF map[string]uint64
		if !haveT {
			var r string
			r, mT = e.check(c, true)
			ft = r != "unsat"
		}
		if !haveF {
			var r string
			r, mF = e.check(Not(c), true)
			ff = r != "unsat"
		}
		if hotspots != nil && !(ft && ff) {
			hotMu.Lock()
			hotspots[e.whereStr()]++
			if hotSamples < 12 && strings.Contains(e.whereStr(), "c13Authority") {
				hotSamples++
				fmt.Fprintf(os.Stderr, "SAMPLE ft=%v ff=%v %s\n", ft, ff, termStr(c, 6))
			}
			hotMu.Unlock()
		}
		switch {
		case ft && ff:
			take = true
			alt := append(append([]int{}, e.decisions...), 0)
			e.work = append(e.work, alt)
			e.Forks++
		case ft:
			take = true
		case ff:
			take = false
		default:
			e.end("infeasible", "")
		}
		if take && !haveT {
			e.setModel(mT)
		} else if !take && !haveF {
			e.setModel(mF)
		}
	}
	if take {
		e.decisions = append(e.decisions, 1)
	} else {
		e.decisions = append(e.decisions, 0)
	}
	e.addFact(c, take)
	return take
}

// choose is an n-way nondeterministic choice (scheduling, select readiness).
func (e *Engine) choose(n int) int {
	k := len(e.decisions)
	c := 0
	if e.pinMode {
		if len(e.choices) < len(e.pinChoices) {
			c = e.pinChoices[len(e.choices)]
		}
		if c >= n {
			c = 0
		}
		e.choices = append(e.choices, c)
		e.decisions = append(e.decisions, c)
		return c
	}
	defer func() { e.choices = append(e.choices, c) }()
	if k < len(e.prefix) {
		c = e.prefix[k]
	} else {
		for alt := n - 1; alt >= 1; alt-- {
			e.work = append(e.work, append(append([]int{}, e.decisions...), alt))
			e.Forks++
		}
	}
	e.decisions = append(e.decisions, c)
	return c
}

// concretize case-splits a bit-vector term over [lo,hi].
func (e *Engine) concretize(t *Term, lo, hi int) int {
	if t.Const {
		return int(sext(t.V, t.S.W))
	}
	for k := lo; k <= hi; k++ {
		// stop as soon as no value >= k is left (deterministic, replay-safe)
		ge := Sle(BV(t.S.W, uint64(k)), t)
		if v, known := e.known(ge); known {
			if !v {
				e.end("infeasible", "")
			}
		} else {
			ok := false
			if e.model != nil {
				if mv, evOk := e.evalModel(ge); evOk && mv == 1 {
					ok = true
				}
			}
			if !ok {
				r, m := e.check(ge, true)
				if r == "unsat" {
					e.end("infeasible", "")
				}
				if m != nil {
					e.setModel(m)
				}
			}
		}
		if e.decide(Eq(t, BV(t.S.W, uint64(k)))) {
			return k
		}
	}
	e.end("truncated", "concretize out of range")
	return 0
}

func (e *Engine) rtPanic(msg string) {
	e.lastPanicWhere = e.whereStr() + " <- " + e.stackStr()
	e.end("panic", msg)
}

func (e *Engine) stackStr() string {
	if e.cur == nil {
		return ""
	}
	var parts []string
	for i := len(e.cur.stack) - 1; i >= 0 && len(parts) < 8; i-- {
		parts = append(parts, e.cur.stack[i].String())
	}
	return strings.Join(parts, " <- ")
}

// ---------------------------------------------------------------------------

func (e *Engine) global(g *ssa.Global) *value {
	if p, ok := e.globals[g]; ok {
		return p
	}
	if e.pathCopier != nil {
		if sp, ok := e.snapshot_.globals[g]; ok {
			p := e.pathCopier.copy(sp).(*value)
			e.globals[g] = p
			return p
		}
	}
	p := new(value)
	if g.Pkg != nil && !e.initDone[g.Pkg] && e.hasInitialiser(g) {
		// its package initialiser is not on this run's list: a read must not see a silent zero value
		*p = poisonV{g.Pkg.Pkg.Path() + "." + g.Name()}
	} else {
		*p = zero(g.Type().(*types.Pointer).Elem())
	}
	e.globals[g] = p
	return p
}

// hasInitialiser reports whether the package's synthetic init function mentions g.
func (e *Engine) hasInitialiser(g *ssa.Global) bool {
	set, ok := e.initGlobals[g.Pkg]
	if !ok {
		set = map[*ssa.Global]bool{}
		if init := g.Pkg.Func("init"); init != nil {
			var ops []*ssa.Value
			for _, b := range init.Blocks {
				for _, in := range b.Instrs {
					ops = in.Operands(ops[:0])
					for _, o := range ops {
						if o != nil {
							if gg, ok := (*o).(*ssa.Global); ok {
								set[gg] = true
							}
						}
					}
				}
			}
		}
		e.initGlobals[g.Pkg] = set
	}
	return set[g]
}

func (e *Engine) constValue(c *ssa.Const) value {
	t := c.Type()
	if c.Value == nil {
		return zero(t)
	}
	if w, _, ok := intWidth(t); ok {
		if u, exact := constant.Uint64Val(constant.ToInt(c.Value)); exact {
			return BV(w, u)
		}
		i, _ := constant.Int64Val(constant.ToInt(c.Value))
		return BV(w, uint64(i))
	}
	if isBool(t) {
		return BoolT(constant.BoolVal(c.Value))
	}
	if isFloat(t) {
		f, _ := constant.Float64Val(c.Value)
		return FPConst(f)
	}
	if isString(t) {
		return constStrV(constant.StringVal(c.Value))
	}
	panic("const " + c.String())
}

func (e *Engine) get(fr *frame, v ssa.Value) value {
	switch v := v.(type) {
	case *ssa.Const:
		return e.constValue(v)
	case *ssa.Global:
		return e.global(v)
	case *ssa.Function:
		return v
	case *ssa.Builtin:
		return v
	}
	if r, ok := fr.env[v]; ok {
		return r
	}
	panic(fmt.Sprintf("get: no value for %T %v in %s", v, v.Name(), fr.fn))
}

func (e *Engine) load(p value) value {
	switch p := p.(type) {
	case *value:
		if p == nil {
			e.rtPanic("nil pointer dereference")
		}
		e.hbAccess(p, false, "")
		if pv, bad := (*p).(poisonV); bad {
			e.end("unsupported", "read of package-level variable "+pv.what+" whose initialiser was not run or could not be interpreted")
		}
		return copyVal(*p)
	case *bytePtr:
		return e.byteLoad(p.arr, p.off, p.idx)
	}
	panic(fmt.Sprintf("load %T", p))
}

func (e *Engine) store(p value, v value) {
	switch p := p.(type) {
	case *value:
		if p == nil {
			e.rtPanic("nil pointer dereference")
		}
		e.hbAccess(p, true, "")
		assignInPlace(p, v)
	case *bytePtr:
		e.byteStore(p.arr, p.off, p.idx, v.(*Term))
	default:
		panic(fmt.Sprintf("store %T", p))
	}
}

func (e *Engine) byteLoad(a *byteArr, off int, idx *Term) *Term {
	if idx.Const {
		return a.b[off+int(idx.V)]
	}
	// balanced multiplexer on the index bits (a linear ite chain over a 256-entry
	// table costs z3 4.8.12 seconds per query; a tree is answered instantly)
	n := len(a.b) - off
	var mux func(lo, size int) *Term
	mux = func(lo, size int) *Term {
		if lo >= n {
			return BV(8, 0)
		}
		if size == 1 {
			return a.b[off+lo]
		}
		half := size / 2
		bit := 0
		for (1 << uint(bit)) < half {
			bit++
		}
		c := Eq(mk("extract", BVS(1), bit, bit, idx), BV(1, 1))
		return Ite(c, mux(lo+half, half), mux(lo, half))
	}
	size := 1
	for size < n {
		size *= 2
	}
	return mux(0, size)
}

func (e *Engine) byteStore(a *byteArr, off int, idx *Term, v *Term) {
	if idx.Const {
		a.b[off+int(idx.V)] = v
		return
	}
	for i := 0; off+i < len(a.b); i++ {
		a.b[off+i] = e.ite(Eq(idx, BV(64, uint64(i))), v, a.b[off+i])
	}
}

// ---------------------------------------------------------------------------
// strings / byte slices

func (e *Engine) strEq(a, b *bytesV) *Term {
	r := Eq(a.n, b.n)
	m := a.cap
	if b.cap < m {
		m = b.cap
	}
	if la, ok := a.concreteLen(); ok && la < m {
		m = la
	}
	if lb, ok := b.concreteLen(); ok && lb < m {
		m = lb
	}
	if hi := e.rangeOf(a.n).hi; hi < uint64(m) {
		m = int(hi)
	}
	if hi := e.rangeOf(b.n).hi; hi < uint64(m) {
		m = int(hi)
	}
	for i := 0; i < m; i++ {
		in := Ult(BV(64, uint64(i)), a.n)
		r = And(r, Or(Not(in), Eq(a.arr.b[a.off+i], b.arr.b[b.off+i])))
	}
	return r
}

// ite builds an if-then-else term after checking whether the condition is
// already decided by the facts and value ranges of the path.
func (e *Engine) ite(c, a, b *Term) *Term {
	if !c.Const {
		if v, ok := e.known(c); ok {
			if v {
				return a
			}
			return b
		}
	}
	return Ite(c, a, b)
}

// concat joins two byte strings without forking: cell i of the result is a[i]
// when i < len(a), otherwise b[i-len(a)], with len(a) possibly symbolic.
func (e *Engine) concat(a, b *bytesV) *bytesV {
	capA, capB := a.cap, b.cap
	minA := 0
	if l, ok := a.concreteLen(); ok {
		capA, minA = l, l
	} else {
		r := e.rangeOf(a.n)
		if r.hi < uint64(capA) {
			capA = int(r.hi)
		}
		if r.lo > 0 && r.lo <= uint64(capA) {
			minA = int(r.lo)
		}
	}
	if l, ok := b.concreteLen(); ok {
		capB = l
	} else if hi := e.rangeOf(b.n).hi; hi < uint64(capB) {
		capB = int(hi)
	}
	arr := &byteArr{b: make([]*Term, capA+capB)}
	for i := range arr.b {
		var cell *Term = BV(8, 0)
		// candidates from b: len(a)==k, index i-k
		for k := minA; k <= capA && k <= i; k++ {
			if i-k < capB {
				cell = e.ite(Eq(a.n, BV(64, uint64(k))), b.arr.b[b.off+i-k], cell)
			}
		}
		if i < capA {
			cell = e.ite(Ult(BV(64, uint64(i)), a.n), a.arr.b[a.off+i], cell)
		}
		arr.b[i] = cell
	}
	return &bytesV{arr: arr, n: Add(a.n, b.n), cap: capA + capB}
}

func (e *Engine) snapshot(a *bytesV) *bytesV {
	c := a.cap
	if l, ok := a.concreteLen(); ok {
		c = l
	}
	arr := &byteArr{b: make([]*Term, c)}
	copy(arr.b, a.arr.b[a.off:a.off+c])
	return &bytesV{arr: arr, n: a.n, cap: c, isNil: false}
}

// copyBytes implements copy(dst, src) and returns the count.
func (e *Engine) copyBytes(dst, src *bytesV) *Term {
	n := e.ite(Ult(dst.n, src.n), dst.n, src.n)
	m := dst.cap
	if src.cap < m {
		m = src.cap
	}
	if l, ok := dst.concreteLen(); ok && l < m {
		m = l
	}
	if l, ok := src.concreteLen(); ok && l < m {
		m = l
	}
	// the lengths' upper bounds known from the path facts bound the loop as well
	if hi := e.rangeOf(dst.n).hi; hi < uint64(m) {
		m = int(hi)
	}
	if hi := e.rangeOf(src.n).hi; hi < uint64(m) {
		m = int(hi)
	}
	// read all source cells first (dst and src may alias)
	tmp := make([]*Term, m)
	for i := 0; i < m; i++ {
		tmp[i] = src.arr.b[src.off+i]
	}
	for i := 0; i < m; i++ {
		in := Ult(BV(64, uint64(i)), n)
		dst.arr.b[dst.off+i] = e.ite(in, tmp[i], dst.arr.b[dst.off+i])
	}
	return n
}

// ---------------------------------------------------------------------------

func (e *Engine) eq(a, b value) *Term {
	switch a := a.(type) {
	case *Term:
		return Eq(a, b.(*Term))
	case *bytesV:
		bb := b.(*bytesV)
		return e.strEq(a, bb)
	case *value:
		return BoolT(a == b.(*value))
	case iface:
		bi := b.(iface)
		if a.t == nil || bi.t == nil {
			return BoolT(a.t == nil && bi.t == nil)
		}
		if !types.Identical(a.t, bi.t) {
			return FalseT
		}
		return e.eq(a.v, bi.v)
	case structV:
		bs := b.(structV)
		r := TrueT
		for i := range a {
			r = And(r, e.eq(a[i], bs[i]))
		}
		return r
	case byteArrayV:
		bb := b.(byteArrayV)
		r := TrueT
		for i := range a.a.b {
			r = And(r, Eq(a.a.b[i], bb.a.b[i]))
		}
		return r
	case arrayV:
		bs := b.(arrayV)
		r := TrueT
		for i := range a {
			r = And(r, e.eq(a[i], bs[i]))
		}
		return r
	case *mapV:
		return BoolT(a == b.(*mapV))
	case *sliceV:
		return BoolT(a.isNil && b.(*sliceV).isNil)
	case nil:
		return BoolT(b == nil)
	case *ssa.Function:
		return BoolT(b == a)
	case *closure:
		return BoolT(b == a)
	case *nativeFn:
		return BoolT(b == a)
	case *chanV:
		return BoolT(a == b.(*chanV))
	case *chanObj:
		bo, _ := b.(*chanObj)
		return BoolT(a == bo)
	case *bytePtr:
		return FalseT
	}
	panic(fmt.Sprintf("eq %T", a))
}

func (e *Engine) binop(op token.Token, t types.Type, x, y value) value {
	if pi, ok := x.(ptrInt); ok {
		if yt, ok := y.(*Term); ok && yt.Const && yt.V == 0 && (op == token.XOR || op == token.ADD || op == token.OR) {
			return pi // noescape: uintptr(p) ^ 0
		}
		e.end("unsupported", "arithmetic on a pointer-derived uintptr")
	}
	switch xv := x.(type) {
	case *bytesV:
		yv := y.(*bytesV)
		switch op {
		case token.ADD:
			return e.concat(xv, yv)
		case token.EQL:
			return e.strEq(xv, yv)
		case token.NEQ:
			return Not(e.strEq(xv, yv))
		}
		// ordered comparison: only for concrete strings in this spike
		xs, ok1 := xv.goString()
		ys, ok2 := yv.goString()
		if ok1 && ok2 {
			switch op {
			case token.LSS:
				return BoolT(xs < ys)
			case token.LEQ:
				return BoolT(xs <= ys)
			case token.GTR:
				return BoolT(xs > ys)
			case token.GEQ:
				return BoolT(xs >= ys)
			}
		}
		e.end("unsupported", "string ordering on symbolic strings")
	case *Term:
		yv, isT := y.(*Term)
		if !isT {
			break
		}
		if xv.S.K == 0 {
			switch op {
			case token.EQL:
				return Eq(xv, yv)
			case token.NEQ:
				return Not(Eq(xv, yv))
			case token.AND:
				return And(xv, yv)
			case token.OR:
				return Or(xv, yv)
			}
		}
		if xv.S.K == 2 {
			switch op {
			case token.ADD:
				return FAdd(xv, yv)
			case token.SUB:
				return FSub(xv, yv)
			case token.MUL:
				return FMul(xv, yv)
			case token.QUO:
				return FDiv(xv, yv)
			case token.LSS:
				return FLt(xv, yv)
			case token.LEQ:
				return FLe(xv, yv)
			case token.GTR:
				return FLt(yv, xv)
			case token.GEQ:
				return FLe(yv, xv)
			case token.EQL:
				return Eq(xv, yv)
			case token.NEQ:
				return Not(Eq(xv, yv))
			}
		}
		_, signed, _ := intWidth(t)
		switch op {
		case token.ADD:
			return Add(xv, yv)
		case token.SUB:
			return Sub(xv, yv)
		case token.MUL:
			return Mul(xv, yv)
		case token.QUO, token.REM:
			if e.decide(Eq(yv, BV(yv.S.W, 0))) {
				e.rtPanic("integer divide by zero")
			}
			if op == token.QUO {
				if signed {
					return SDiv(xv, yv)
				}
				return UDiv(xv, yv)
			}
			if signed {
				return SRem(xv, yv)
			}
			return URem(xv, yv)
		case token.AND:
			return BAnd(xv, yv)
		case token.OR:
			return BOr(xv, yv)
		case token.XOR:
			return BXor(xv, yv)
		case token.AND_NOT:
			return BAnd(xv, BXor(yv, BV(yv.S.W, ^uint64(0))))
		case token.SHL, token.SHR:
			w := xv.S.W
			c64 := ZExt(yv, 64)
			if yv.S.W > 64 {
				c64 = yv
			}
			big := Ule(BV(64, uint64(w)), c64)
			var cnt *Term
			if w == 64 {
				cnt = c64
			} else {
				cnt = Trunc(c64, w)
			}
			if op == token.SHL {
				return Ite(big, BV(w, 0), Shl(xv, cnt))
			}
			if signed {
				return Ite(big, Ashr(xv, BV(w, uint64(w-1))), Ashr(xv, cnt))
			}
			return Ite(big, BV(w, 0), Lshr(xv, cnt))
		case token.EQL:
			return Eq(xv, yv)
		case token.NEQ:
			return Not(Eq(xv, yv))
		}
		// comparisons: signedness from operand type is not available here; caller passes operand type in t for comparisons
		switch op {
		case token.LSS:
			if signed {
				return Slt(xv, yv)
			}
			return Ult(xv, yv)
		case token.LEQ:
			if signed {
				return Sle(xv, yv)
			}
			return Ule(xv, yv)
		case token.GTR:
			if signed {
				return Slt(yv, xv)
			}
			return Ult(yv, xv)
		case token.GEQ:
			if signed {
				return Sle(yv, xv)
			}
			return Ule(yv, xv)
		}
	}
	switch op {
	case token.EQL:
		return e.eq(x, y)
	case token.NEQ:
		return Not(e.eq(x, y))
	}
	panic(fmt.Sprintf("binop %s on %T", op, x))
}

type ptrInt struct{ p value }
type sliceDataPtr struct{ b *bytesV }

func (e *Engine) conv(from, to types.Type, x value) value {
	if pi, ok := x.(ptrInt); ok {
		return pi.p // uintptr that came from a pointer, converted back
	}
	if _, _, isInt := intWidth(to); isInt {
		if _, isPtr := x.(*value); isPtr {
			return ptrInt{x}
		}
	}
	if wt, _, ok := intWidth(to); ok {
		if wf, sf, ok2 := intWidth(from); ok2 {
			xt := x.(*Term)
			if wt <= wf {
				return Trunc(xt, wt)
			}
			if sf {
				return SExt(xt, wt)
			}
			return ZExt(xt, wt)
		}
		if isFloat(from) {
			_, st, _ := intWidth(to)
			if st {
				return FPToSInt(x.(*Term), wt)
			}
			return FPToUInt(x.(*Term), wt)
		}
	}
	if isFloat(to) {
		if _, sf, ok := intWidth(from); ok {
			if sf {
				return SIntToFP(x.(*Term))
			}
			return UIntToFP(x.(*Term))
		}
		if isFloat(from) {
			return x
		}
	}
	if isString(to) {
		if b, ok := x.(*bytesV); ok {
			s := e.snapshot(b)
			return s
		}
		if xt, ok := x.(*Term); ok && xt.Const {
			return constStrV(string(rune(sext(xt.V, xt.S.W))))
		}
	}
	if isByteSlice(to) {
		if b, ok := x.(*bytesV); ok {
			return e.snapshot(b)
		}
	}
	if _, ok := to.Underlying().(*types.Pointer); ok {
		return x
	}
	if b, ok := to.Underlying().(*types.Basic); ok && b.Kind() == types.UnsafePointer {
		return x
	}
	e.end("unsupported", fmt.Sprintf("convert %s -> %s", from, to))
	return nil
}

// ---------------------------------------------------------------------------

func (e *Engine) mapLookup(m *mapV, k value) (value, *Term, int) {
	if m == nil {
		return nil, FalseT, -1
	}
	e.hbAccess(m, false, "")
	for i, mk := range m.keys {
		if m.isDead(i) {
			continue
		}
		if e.decide(e.eq(mk, k)) {
			return m.vals[i], TrueT, i
		}
	}
	return nil, FalseT, -1
}

func (e *Engine) callAny(fr *frame, fv value, args []value, pos token.Pos) value {
	switch f := fv.(type) {
	case *ssa.Function:
		return e.callFn(f, args)
	case *closure:
		return e.callFnEnv(f.fn, args, f.env)
	case *boundMethod:
		return e.callFn(f.fn, append([]value{f.recv}, args...))
	case *nativeFn:
		return f.f(e, args)
	case nil:
		e.rtPanic("call of nil function")
	}
	panic(fmt.Sprintf("callAny %T", fv))
}

func (e *Engine) callFn(fn *ssa.Function, args []value) value { return e.callFnEnv(fn, args, nil) }

// nativeFn is a function value implemented by the engine (e.g. a context.CancelFunc).
type nativeFn struct {
	name string
	f    func(e *Engine, args []value) value
}

type fnMeta struct {
	name         string
	ext          func(e *Engine, fr *frame, args []value) value
	isInit       bool
	modelledRecv bool
}

func (e *Engine) meta(fn *ssa.Function) *fnMeta {
	if m, ok := e.fnMetas[fn]; ok {
		return m
	}
	m := &fnMeta{name: fn.String()}
	m.ext = e.ext[m.name]
	m.isInit = strings.Contains(fn.Name(), "init#")
	if m.ext == nil && fn.Signature.Recv() != nil {
		rt := fn.Signature.Recv().Type().String()
		// a websocket.Conn is a model object (message queues): its real methods would
		// run on an empty struct, so every method without a model is unsupported
		if rt == "*"+wsPkg+".Conn" {
			m.modelledRecv = true
		}
	}
	e.fnMetas[fn] = m
	return m
}

func (e *Engine) callFnEnv(fn *ssa.Function, args []value, env []value) value {
	m := e.meta(fn)
	name := m.name
	if len(e.stubs) > 0 {
		if sv, ok := e.stubs[name]; ok {
			return e.callAny(nil, sv, args, 0)
		}
	}
	if m.ext != nil {
		return m.ext(e, nil, args)
	}
	if m.isInit {
		return nil // declared init functions are not run; var initialisers are
	}
	if m.modelledRecv {
		e.end("unsupported", "method of a modelled type without a model: "+name)
	}
	if fn.Blocks == nil {
		e.end("unsupported", "no body: "+name)
	}
	if fn.Name() == "init" && fn.Pkg != nil && fn.Synthetic != "" {
		pp := fn.Pkg.Pkg.Path()
		if !(e.initAllow[pp] || (strings.HasPrefix(pp, repoMod) && !e.initDeny[pp])) || e.initDone[fn.Pkg] {
			return nil
		}
		e.initDone[fn.Pkg] = true
	}
	e.depth++
	if e.depth > 200 {
		if os.Getenv("GOSYM_DEBUG") != "" {
			fmt.Fprintln(os.Stderr, "call depth exceeded:", e.stackStr())
		}
		e.end("truncated", "call depth")
	}
	e.noteFunc(fn)
	th := e.cur
	th.stack = append(th.stack, fn)
	defer func() { th.stack = th.stack[:len(th.stack)-1] }()
	fr := &frame{fn: fn, env: map[ssa.Value]value{}}
	for i, p := range fn.Params {
		fr.env[p] = args[i]
	}
	for i, fv := range fn.FreeVars {
		fr.env[fv] = env[i]
	}
	fr.block = fn.Blocks[0]
	defer func() {
		if r := recover(); r != nil {
			if _, ok := r.(pathEnd); !ok && os.Getenv("GOSYM_DEBUG") != "" {
				fmt.Fprintf(os.Stderr, "  in %s block %d\n", fn, func() int {
					if fr.block != nil {
						return fr.block.Index
					}
					return -1
				}())
			}
			panic(r)
		}
	}()
	for fr.block != nil {
		e.runBlock(fr)
	}
	e.depth--
	return fr.result
}

func (e *Engine) runDefers(fr *frame) {
	for i := len(fr.defers) - 1; i >= 0; i-- {
		fr.defers[i]()
	}
	fr.defers = nil
}

func (e *Engine) runBlock(fr *frame) {
	b := fr.block
	isInit := fr.fn.Synthetic != "" && fr.fn.Name() == "init"
	for _, instr := range b.Instrs {
		e.curInstr = instr
		e.steps++
		e.Instrs++
		if e.steps > e.maxSteps {
			e.end("truncated", "step budget")
		}
		if e.steps&0xffff == 0 && !e.deadline.IsZero() && time.Now().After(e.deadline) {
			e.end("truncated", "time limit reached inside a path")
		}
		var stop bool
		if isInit {
			stop = e.execInit(fr, b, instr)
		} else {
			stop = e.exec(fr, b, instr)
		}
		if stop {
			return
		}
	}
	fr.block = nil
}

// execInit runs one instruction of a package initialiser; an instruction that
// needs unsupported code is skipped and what it would have defined is poisoned.
func (e *Engine) execInit(fr *frame, b *ssa.BasicBlock, instr ssa.Instruction) (stop bool) {
	depth := e.depth
	defer func() {
		if r := recover(); r != nil {
			if pe, ok := r.(pathEnd); ok && pe.kind != "unsupported" && pe.kind != "panic" && !(pe.kind == "truncated" && pe.msg == "call depth") {
				panic(r)
			}
			e.depth = depth
			e.skippedInit = append(e.skippedInit, fmt.Sprintf("%s: %v", instr, r))
			if v, ok := instr.(ssa.Value); ok {
				fr.env[v] = poisonV{fmt.Sprint(instr)}
			}
			if st, ok := instr.(*ssa.Store); ok {
				if p, ok := fr.env[st.Addr].(*value); ok && p != nil {
					*p = poisonV{fmt.Sprint(instr)}
				} else if g, ok := st.Addr.(*ssa.Global); ok {
					*e.global(g) = poisonV{g.String()}
				}
			}
			stop = false
		}
	}()
	return e.exec(fr, b, instr)
}

type poisonV struct{ what string }

func (e *Engine) exec(fr *frame, b *ssa.BasicBlock, instr ssa.Instruction) bool {
	{
		switch in := instr.(type) {
		case *ssa.DebugRef:
		case *ssa.Phi:
			if fr.phiOverride != nil {
				if v, ok := fr.phiOverride[in]; ok {
					fr.env[in] = v
					return false
				}
			}
			for i, p := range b.Preds {
				if p == fr.prev {
					fr.env[in] = e.get(fr, in.Edges[i])
					break
				}
			}
		case *ssa.Alloc:
			p := new(value)
			*p = zero(in.Type().(*types.Pointer).Elem())
			if len(e.threads) > 1 {
				e.localCells[p] = true
			}
			fr.env[in] = p
		case *ssa.UnOp:
			fr.env[in] = e.unop(fr, in)
		case *ssa.BinOp:
			t := in.X.Type()
			fr.env[in] = e.binop(in.Op, t, e.get(fr, in.X), e.get(fr, in.Y))
		case *ssa.Convert:
			fr.env[in] = e.conv(in.X.Type(), in.Type(), e.get(fr, in.X))
		case *ssa.ChangeType:
			fr.env[in] = e.get(fr, in.X)
		case *ssa.ChangeInterface:
			fr.env[in] = e.get(fr, in.X)
		case *ssa.MakeInterface:
			fr.env[in] = iface{t: in.X.Type(), v: e.get(fr, in.X)}
		case *ssa.Extract:
			fr.env[in] = e.get(fr, in.Tuple).(tuple)[in.Index]
		case *ssa.FieldAddr:
			p := e.get(fr, in.X).(*value)
			if p == nil {
				e.rtPanic("nil pointer dereference")
			}
			s := e.agg(p).(structV)
			fr.env[in] = fieldPtr(s, in.Field)
		case *ssa.Field:
			fr.env[in] = copyVal(e.get(fr, in.X).(structV)[in.Field])
		case *ssa.IndexAddr:
			fr.env[in] = e.indexAddr(fr, in)
		case *ssa.Index:
			x := e.get(fr, in.X)
			idx := e.get(fr, in.Index).(*Term)
			switch xv := x.(type) {
			case *bytesV:
				if idx.S.W != 64 {
					idx = SExt(idx, 64)
				}
				if !e.decide(Ult(idx, xv.n)) {
					e.rtPanic("index out of range")
				}
				fr.env[in] = e.byteLoad(xv.arr, xv.off, idx)
			case byteArrayV:
				if idx.S.W != 64 {
					idx = SExt(idx, 64)
				}
				if !e.decide(Ult(idx, BV(64, uint64(len(xv.a.b))))) {
					e.rtPanic("index out of range")
				}
				fr.env[in] = e.byteLoad(xv.a, 0, idx)
			case arrayV:
				i := e.concretize(idx, 0, len(xv)-1)
				if i < 0 || i >= len(xv) {
					e.rtPanic("index out of range")
				}
				fr.env[in] = copyVal(xv[i])
			default:
				panic(fmt.Sprintf("Index %T", x))
			}
		case *ssa.Lookup:
			fr.env[in] = e.lookup(fr, in)
		case *ssa.Slice:
			fr.env[in] = e.slice(fr, in)
		case *ssa.MakeSlice:
			n := e.concretize(e.get(fr, in.Len).(*Term), 0, 1<<20)
			c := e.concretize(e.get(fr, in.Cap).(*Term), 0, 1<<20)
			if isByteSlice(in.Type()) {
				arr := &byteArr{b: make([]*Term, c)}
				for i := range arr.b {
					arr.b[i] = BV(8, 0)
				}
				fr.env[in] = &bytesV{arr: arr, n: BV(64, uint64(n)), cap: c}
			} else {
				el := in.Type().Underlying().(*types.Slice).Elem()
				arr := make([]value, c)
				for i := range arr {
					arr[i] = zero(el)
				}
				fr.env[in] = &sliceV{arr: &arr, len: n, cap: c}
			}
		case *ssa.MakeMap:
			fr.env[in] = &mapV{}
		case *ssa.MapUpdate:
			m := e.get(fr, in.Map).(*mapV)
			if m == nil {
				e.rtPanic("assignment to entry in nil map")
			}
			k := e.get(fr, in.Key)
			_, _, i := e.mapLookup(m, k)
			e.hbAccess(m, true, "")
			if i >= 0 {
				m.vals[i] = copyVal(e.get(fr, in.Value))
			} else {
				m.keys = append(m.keys, copyVal(k))
				m.vals = append(m.vals, copyVal(e.get(fr, in.Value)))
			}
		case *ssa.MakeClosure:
			c := &closure{fn: in.Fn.(*ssa.Function)}
			for _, b := range in.Bindings {
				c.env = append(c.env, e.get(fr, b))
			}
			fr.env[in] = c
		case *ssa.Range:
			switch x := e.get(fr, in.X).(type) {
			case *mapV:
				fr.env[in] = &mapIter{m: x}
			case *bytesV:
				fr.env[in] = &strIter{s: x}
			}
		case *ssa.Next:
			fr.env[in] = e.next(fr, in)
		case *ssa.TypeAssert:
			fr.env[in] = e.typeAssert(fr, in)
		case *ssa.Store:
			e.store(e.get(fr, in.Addr), e.get(fr, in.Val))
		case *ssa.MakeChan:
			c := e.concretize(e.get(fr, in.Size).(*Term), 0, 1<<16)
			e.chanSeq++
			fr.env[in] = &chanObj{cap: c, elem: in.Type().Underlying().(*types.Chan).Elem(), id: e.chanSeq}
		case *ssa.Send:
			ch, _ := e.get(fr, in.Chan).(*chanObj)
			e.chanSend(ch, copyVal(e.get(fr, in.X)))
		case *ssa.Select:
			fr.env[in] = e.selectInstr(fr, in)
		case *ssa.Go:
			fv, args := e.prepareCall(fr, in.Common())
			if b, ok := fv.(*ssa.Builtin); ok {
				e.end("unsupported", "go builtin "+b.Name())
			}
			e.spawn(fv, args)
			e.yield()
		case *ssa.Call:
			fr.env[in] = e.doCall(fr, in.Common())
		case *ssa.Defer:
			c := in.Common()
			fv, args := e.prepareCall(fr, c)
			fr.defers = append(fr.defers, func() { e.invoke(fr, c, fv, args) })
		case *ssa.RunDefers:
			e.runDefers(fr)
		case *ssa.Panic:
			e.rtPanic("explicit panic: " + describe(e.get(fr, in.X)))
		case *ssa.Return:
			switch len(in.Results) {
			case 0:
			case 1:
				fr.result = e.get(fr, in.Results[0])
			default:
				t := make(tuple, len(in.Results))
				for i, r := range in.Results {
					t[i] = e.get(fr, r)
				}
				fr.result = t
			}
			fr.block = nil
			return true
		case *ssa.Jump:
			fr.prev, fr.block = b, b.Succs[0]
			return true
		case *ssa.If:
			c := e.get(fr, in.Cond).(*Term)
			if _, isKnown := e.known(c); !isKnown && !e.noMerge {
				if e.tryMerge(fr, b, c) {
					return true
				}
			}
			fr.phiOverride = nil
			if e.decide(c) {
				fr.prev, fr.block = b, b.Succs[0]
			} else {
				fr.prev, fr.block = b, b.Succs[1]
			}
			return true
		default:
			e.end("unsupported", fmt.Sprintf("instr %T in %s", instr, fr.fn))
		}
	}
	return false
}

func fieldPtr(s structV, i int) *value { return &s[i] }

func (e *Engine) whereStr() string {
	if e.curInstr == nil {
		return "?"
	}
	pos := e.prog.Fset.Position(e.curInstr.Pos())
	fn := ""
	if e.curInstr.Parent() != nil {
		fn = e.curInstr.Parent().String()
	}
	if pos.IsValid() {
		return fmt.Sprintf("%s (%s:%d)", fn, pos.Filename[strings.LastIndex(pos.Filename, "/")+1:], pos.Line)
	}
	return fn
}

// initCall runs one call of a package initialiser; an initialiser that needs
// unsupported code leaves its variable at the zero value instead of ending the path.
func (e *Engine) initCall(fr *frame, in *ssa.Call) (res value) {
	depth := e.depth
	defer func() {
		if r := recover(); r != nil {
			if pe, ok := r.(pathEnd); ok && (pe.kind == "unsupported" || pe.kind == "panic") {
				e.depth = depth
				e.skippedInit = append(e.skippedInit, in.Common().String()+": "+pe.msg)
				if in.Type() != nil {
					if tt, ok := in.Type().(*types.Tuple); !ok || tt.Len() > 0 {
						res = zero(in.Type())
					}
				}
				return
			}
			panic(r)
		}
	}()
	return e.doCall(fr, in.Common())
}

// assignInPlace keeps the backing storage of aggregates stable so that field
// and element pointers taken earlier stay valid.
func assignInPlace(p *value, v value) {
	switch nv := v.(type) {
	case structV:
		if old, ok := (*p).(structV); ok && len(old) == len(nv) {
			for i := range nv {
				assignInPlace(&old[i], nv[i])
			}
			return
		}
	case byteArrayV:
		if old, ok := (*p).(byteArrayV); ok && len(old.a.b) == len(nv.a.b) {
			copy(old.a.b, nv.a.b)
			return
		}
	case arrayV:
		if old, ok := (*p).(arrayV); ok && len(old) == len(nv) {
			for i := range nv {
				assignInPlace(&old[i], nv[i])
			}
			return
		}
	}
	*p = copyVal(v)
}

func (e *Engine) unop(fr *frame, in *ssa.UnOp) value {
	x := e.get(fr, in.X)
	switch in.Op {
	case token.MUL:
		return e.load(x)
	case token.NOT:
		return Not(x.(*Term))
	case token.SUB:
		t := x.(*Term)
		if t.S.K == 2 {
			return FSub(FPConst(0), t)
		}
		return Sub(BV(t.S.W, 0), t)
	case token.XOR:
		t := x.(*Term)
		return BXor(t, BV(t.S.W, ^uint64(0)))
	case token.ARROW:
		ch, _ := x.(*chanObj)
		v, ok := e.chanRecv(ch)
		if in.CommaOk {
			return tuple{v, BoolT(ok)}
		}
		return v
	}
	e.end("unsupported", "unop "+in.Op.String())
	return nil
}

func (e *Engine) indexAddr(fr *frame, in *ssa.IndexAddr) value {
	x := e.get(fr, in.X)
	idx := e.get(fr, in.Index).(*Term)
	if idx.S.W != 64 {
		_, s, _ := intWidth(in.Index.Type())
		if s {
			idx = SExt(idx, 64)
		} else {
			idx = ZExt(idx, 64)
		}
	}
	switch xv := x.(type) {
	case *bytesV:
		if !e.decide(Ult(idx, xv.n)) {
			e.rtPanic("index out of range")
		}
		if !idx.Const {
			// keep indices inside the capacity for the ite chain
		}
		return &bytePtr{arr: xv.arr, off: xv.off, idx: idx}
	case *sliceV:
		i := e.concretize(idx, 0, xv.len-1)
		if i < 0 || i >= xv.len {
			e.rtPanic("index out of range")
		}
		return &(*xv.arr)[xv.off+i]
	case *value: // pointer to array
		if xv == nil {
			e.rtPanic("nil pointer dereference")
		}
		if ba, ok := e.agg(xv).(byteArrayV); ok {
			if !e.decide(Ult(idx, BV(64, uint64(len(ba.a.b))))) {
				e.rtPanic("index out of range")
			}
			return &bytePtr{arr: ba.a, off: 0, idx: idx}
		}
		arr := e.agg(xv).(arrayV)
		i := e.concretize(idx, 0, len(arr)-1)
		if i < 0 || i >= len(arr) {
			e.rtPanic("index out of range")
		}
		return &arr[i]
	}
	panic(fmt.Sprintf("indexAddr %T", x))
}

func (e *Engine) lookup(fr *frame, in *ssa.Lookup) value {
	x := e.get(fr, in.X)
	switch xv := x.(type) {
	case *bytesV:
		idx := e.get(fr, in.Index).(*Term)
		if idx.S.W != 64 {
			idx = SExt(idx, 64)
		}
		if !e.decide(Ult(idx, xv.n)) {
			e.rtPanic("index out of range")
		}
		return e.byteLoad(xv.arr, xv.off, idx)
	case *mapV:
		v, ok, _ := e.mapLookup(xv, e.get(fr, in.Index))
		if v == nil {
			v = zero(in.X.Type().Underlying().(*types.Map).Elem())
		}
		if in.CommaOk {
			return tuple{copyVal(v), ok}
		}
		return copyVal(v)
	}
	panic(fmt.Sprintf("lookup %T", x))
}

func (e *Engine) slice(fr *frame, in *ssa.Slice) value {
	x := e.get(fr, in.X)
	var lo, hi *Term
	if in.Low != nil {
		lo = e.get(fr, in.Low).(*Term)
	}
	if in.High != nil {
		hi = e.get(fr, in.High).(*Term)
	}
	switch xv := x.(type) {
	case *bytesV:
		limit := xv.n
		isStr := isString(in.X.Type())
		if !isStr {
			limit = BV(64, uint64(xv.cap))
		}
		l := 0
		if lo != nil {
			// check lo <= (hi or len), then case-split
			up := xv.n
			if hi != nil {
				up = hi
			}
			if !e.decide(Ule(lo, up)) {
				e.rtPanic("slice bounds out of range")
			}
			l = e.concretize(lo, 0, xv.cap)
		}
		n := xv.n
		if hi != nil {
			if !e.decide(Ule(hi, limit)) {
				e.rtPanic("slice bounds out of range")
			}
			n = hi
		}
		newLen := Sub(n, BV(64, uint64(l)))
		return &bytesV{arr: xv.arr, off: xv.off + l, n: newLen, cap: xv.cap - l}
	case *sliceV:
		l, h := 0, xv.len
		if lo != nil {
			l = e.concretize(lo, 0, xv.cap)
		}
		if hi != nil {
			h = e.concretize(hi, 0, xv.cap)
		}
		if l < 0 || h < l || h > xv.cap {
			e.rtPanic("slice bounds out of range")
		}
		return &sliceV{arr: xv.arr, off: xv.off + l, len: h - l, cap: xv.cap - l, isNil: xv.isNil && h == 0}
	case *value: // *array
		if ba, ok := e.agg(xv).(byteArrayV); ok {
			n := len(ba.a.b)
			l := 0
			if lo != nil {
				if !e.decide(Ule(lo, BV(64, uint64(n)))) {
					e.rtPanic("slice bounds out of range")
				}
				l = e.concretize(lo, 0, n)
			}
			var ln *Term = BV(64, uint64(n-l))
			if hi != nil {
				if !e.decide(And(Ule(hi, BV(64, uint64(n))), Ule(BV(64, uint64(l)), hi))) {
					e.rtPanic("slice bounds out of range")
				}
				ln = Sub(hi, BV(64, uint64(l)))
			}
			return &bytesV{arr: ba.a, off: l, n: ln, cap: n - l}
		}
		arr := e.agg(xv).(arrayV)
		l, h := 0, len(arr)
		if lo != nil {
			l = e.concretize(lo, 0, len(arr))
		}
		if hi != nil {
			h = e.concretize(hi, 0, len(arr))
		}
		s := []value(arr)
		return &sliceV{arr: &s, off: l, len: h - l, cap: len(arr) - l}
	}
	panic(fmt.Sprintf("slice %T", x))
}

func isByteElem(t types.Type) bool {
	b, ok := t.Underlying().(*types.Basic)
	return ok && b.Kind() == types.Uint8
}

func (e *Engine) next(fr *frame, in *ssa.Next) value {
	switch it := e.get(fr, in.Iter).(type) {
	case *mapIter:
		for it.m != nil && it.i < len(it.m.keys) && it.m.isDead(it.i) {
			it.i++
		}
		if it.m == nil || it.i >= len(it.m.keys) {
			return tuple{FalseT, nil, nil}
		}
		k, v := it.m.keys[it.i], it.m.vals[it.i]
		it.i++
		return tuple{TrueT, copyVal(k), copyVal(v)}
	case *strIter:
		if !e.decide(Ult(BV(64, uint64(it.i)), it.s.n)) {
			return tuple{FalseT, BV(64, 0), BV(32, 0)}
		}
		c := it.s.arr.b[it.s.off+it.i]
		i := it.i
		if e.decide(Ult(c, BV(8, 0x80))) {
			it.i++
			return tuple{TrueT, BV(64, uint64(i)), ZExt(c, 32)}
		}
		// multi-byte or invalid sequence: the real decoder is interpreted
		rest := &bytesV{arr: it.s.arr, off: it.s.off + i, n: Sub(it.s.n, BV(64, uint64(i))), cap: it.s.cap - i}
		r := e.callFn(e.fn("unicode/utf8", "DecodeRuneInString"), []value{rest}).(tuple)
		size := e.concretize(r[1].(*Term), 1, 4)
		it.i += size
		return tuple{TrueT, BV(64, uint64(i)), r[0]}
	}
	panic("next")
}

func (e *Engine) typeAssert(fr *frame, in *ssa.TypeAssert) value {
	x := e.get(fr, in.X).(iface)
	ok := false
	if x.t != nil {
		if it, isI := in.AssertedType.Underlying().(*types.Interface); isI {
			ok = types.Implements(x.t, it)
		} else {
			ok = types.Identical(x.t, in.AssertedType)
		}
	}
	var v value
	if ok {
		if _, isI := in.AssertedType.Underlying().(*types.Interface); isI {
			v = x
		} else {
			v = x.v
		}
	} else {
		v = zero(in.AssertedType)
	}
	if in.CommaOk {
		return tuple{v, BoolT(ok)}
	}
	if !ok {
		e.rtPanic("interface conversion failed")
	}
	return v
}

func (e *Engine) prepareCall(fr *frame, c *ssa.CallCommon) (value, []value) {
	var args []value
	var fv value
	if c.IsInvoke() {
		recv := e.get(fr, c.Value).(iface)
		if recv.t == nil {
			e.rtPanic("method call on nil interface")
		}
		fn := e.prog.LookupMethod(recv.t, c.Method.Pkg(), c.Method.Name())
		if fn == nil {
			e.end("unsupported", "no method "+c.Method.Name()+" on "+recv.t.String())
		}
		fv = fn
		args = append(args, recv.v)
	} else {
		fv = e.get(fr, c.Value)
	}
	for _, a := range c.Args {
		args = append(args, e.get(fr, a))
	}
	return fv, args
}

func (e *Engine) doCall(fr *frame, c *ssa.CallCommon) value {
	fv, args := e.prepareCall(fr, c)
	return e.invoke(fr, c, fv, args)
}

func (e *Engine) invoke(fr *frame, c *ssa.CallCommon, fv value, args []value) value {
	if b, ok := fv.(*ssa.Builtin); ok {
		return e.builtin(fr, b, c, args)
	}
	return e.callAny(fr, fv, args, c.Pos())
}

func (e *Engine) builtin(fr *frame, b *ssa.Builtin, c *ssa.CallCommon, args []value) value {
	switch b.Name() {
	case "len":
		switch x := args[0].(type) {
		case *bytesV:
			return x.n
		case *sliceV:
			return BV(64, uint64(x.len))
		case *chanObj:
			if x == nil {
				return BV(64, 0)
			}
			return BV(64, uint64(len(x.buf)))
		case *mapV:
			if x == nil {
				return BV(64, 0)
			}
			return BV(64, uint64(x.live()))
		case arrayV:
			return BV(64, uint64(len(x)))
		case byteArrayV:
			return BV(64, uint64(len(x.a.b)))
		case *value:
			if ba, ok := e.agg(x).(byteArrayV); ok {
				return BV(64, uint64(len(ba.a.b)))
			}
			return BV(64, uint64(len(e.agg(x).(arrayV))))
		}
	case "cap":
		switch x := args[0].(type) {
		case *bytesV:
			return BV(64, uint64(x.cap))
		case *sliceV:
			return BV(64, uint64(x.cap))
		}
	case "copy":
		if ds, ok := args[0].(*sliceV); ok {
			ss := args[1].(*sliceV)
			n := ds.len
			if ss.len < n {
				n = ss.len
			}
			for i := 0; i < n; i++ {
				(*ds.arr)[ds.off+i] = copyVal((*ss.arr)[ss.off+i])
			}
			return BV(64, uint64(n))
		}
		dst := args[0].(*bytesV)
		src := args[1].(*bytesV)
		return e.copyBytes(dst, src)
	case "append":
		return e.appendV(c, args)
	case "delete":
		m := args[0].(*mapV)
		_, _, i := e.mapLookup(m, args[1])
		if i >= 0 {
			for len(m.dead) < len(m.keys) {
				m.dead = append(m.dead, false)
			}
			m.dead[i] = true
			e.hbAccess(m, true, "")
		}
		return nil
	case "SliceData":
		return sliceDataPtr{args[0].(*bytesV)}
	case "StringData":
		return sliceDataPtr{args[0].(*bytesV)}
	case "String":
		sp := args[0].(sliceDataPtr)
		n := args[1].(*Term)
		return e.snapshot(&bytesV{arr: sp.b.arr, off: sp.b.off, n: n, cap: sp.b.cap})
	case "print", "println":
		return nil
	case "clear":
		switch x := args[0].(type) {
		case *mapV:
			if x != nil {
				e.hbAccess(x, true, "")
				for len(x.dead) < len(x.keys) {
					x.dead = append(x.dead, false)
				}
				for i := range x.dead {
					x.dead[i] = true
				}
			}
		case *sliceV:
			for i := 0; i < x.len; i++ {
				(*x.arr)[x.off+i] = zero(c.Args[0].Type().Underlying().(*types.Slice).Elem())
			}
		case *bytesV:
			n := e.concretize(x.n, 0, x.cap)
			for i := 0; i < n; i++ {
				x.arr.b[x.off+i] = BV(8, 0)
			}
		}
		return nil
	case "min", "max":
		_, signed, isInt := intWidth(c.Args[0].Type())
		res, ok := args[0].(*Term)
		if !ok || !isInt {
			e.end("unsupported", "builtin "+b.Name()+" on a non-integer type")
		}
		for _, a := range args[1:] {
			x := a.(*Term)
			var less *Term
			if signed {
				less = Slt(x, res)
			} else {
				less = Ult(x, res)
			}
			if b.Name() == "min" {
				res = e.ite(less, x, res)
			} else {
				res = e.ite(less, res, x)
			}
		}
		return res
	case "recover":
		// a run-time panic ends the path (as a finding) before any deferred call
		// runs, so a deferred recover() never observes one
		return iface{}
	case "close":
		ch, _ := args[0].(*chanObj)
		e.chanClose(ch)
		return nil
	}
	e.end("unsupported", "builtin "+b.Name())
	return nil
}

func (e *Engine) appendV(c *ssa.CallCommon, args []value) value {
	switch s := args[0].(type) {
	case *bytesV:
		add := args[1].(*bytesV)
		return e.appendBytes(s, add)
	case *sliceV:
		add := args[1].(*sliceV)
		if add.len == 0 {
			return s
		}
		// Go semantics: with enough capacity the elements are written in place, so
		// other slices of the same array observe them
		if s.arr != nil && s.len+add.len <= s.cap {
			for i := 0; i < add.len; i++ {
				p := &(*s.arr)[s.off+s.len+i]
				e.hbAccess(p, true, "")
				*p = copyVal((*add.arr)[add.off+i])
			}
			return &sliceV{arr: s.arr, off: s.off, len: s.len + add.len, cap: s.cap}
		}
		need := s.len + add.len
		newCap := 2 * s.cap
		if newCap < need {
			newCap = need
		}
		n := make([]value, need, newCap)
		if s.arr != nil {
			for i := 0; i < s.len; i++ {
				n[i] = copyVal((*s.arr)[s.off+i])
			}
		}
		for i := 0; i < add.len; i++ {
			n[s.len+i] = copyVal((*add.arr)[add.off+i])
		}
		n = n[:newCap]
		var el types.Type
		if sl, ok := c.Args[0].Type().Underlying().(*types.Slice); ok {
			el = sl.Elem()
		}
		for i := need; i < newCap; i++ {
			if el != nil {
				n[i] = zero(el)
			}
		}
		return &sliceV{arr: &n, len: need, cap: newCap}
	}
	panic(fmt.Sprintf("append %T", args[0]))
}

// appendBytes is append for []byte: in place when the capacity suffices (so
// aliasing slices observe the new bytes), otherwise into a fresh array.
func (e *Engine) appendBytes(s, add *bytesV) *bytesV {
	if al, ok := add.concreteLen(); ok && al == 0 {
		return s
	}
	room := BV(64, uint64(s.cap))
	if !s.isNil && s.cap > 0 && e.decide(Ule(Add(s.n, add.n), room)) {
		addCap := add.cap
		if l, ok := add.concreteLen(); ok {
			addCap = l
		}
		if hi := e.rangeOf(add.n).hi; hi < uint64(addCap) {
			addCap = int(hi)
		}
		if sl, ok := s.concreteLen(); ok {
			for j := 0; j < addCap && sl+j < s.cap; j++ {
				in := Ult(BV(64, uint64(j)), add.n)
				s.arr.b[s.off+sl+j] = e.ite(in, add.arr.b[add.off+j], s.arr.b[s.off+sl+j])
			}
		} else {
			// symbolic length: position s.n+j receives add[j]
			for j := 0; j < addCap; j++ {
				in := Ult(BV(64, uint64(j)), add.n)
				idx := Add(s.n, BV(64, uint64(j)))
				for k := 0; k < s.cap; k++ {
					hit := And(in, Eq(idx, BV(64, uint64(k))))
					s.arr.b[s.off+k] = e.ite(hit, add.arr.b[add.off+j], s.arr.b[s.off+k])
				}
			}
		}
		return &bytesV{arr: s.arr, off: s.off, n: Add(s.n, add.n), cap: s.cap}
	}
	r := e.concat(s, add)
	// amortised growth: leave spare capacity as the Go runtime does
	spare := r.cap
	if spare < 8 {
		spare = 8
	}
	for i := 0; i < spare; i++ {
		r.arr.b = append(r.arr.b, BV(8, 0))
	}
	r.cap += spare
	return r
}

var _ = math.Abs
var _ = os.Exit
var _ = strings.Contains

// agg dereferences a pointer to an aggregate, ending the path if the cell holds
// the result of an initialiser that was not interpreted.
func (e *Engine) agg(p *value) value {
	if p == nil {
		e.rtPanic("nil pointer dereference")
	}
	if pv, bad := (*p).(poisonV); bad {
		e.end("unsupported", "use of package-level variable "+pv.what+" whose initialiser was not run or could not be interpreted")
	}
	return *p
}
