package main

// Interval pre-check: unsigned value ranges of bit-vector terms derived from the
// facts on the path condition (bounds of symbolic lengths and rt.Int values).
// Decides the ubiquitous `i < len` conditions without a solver query. Ranges
// only ever over-approximate, so a decision taken from them is implied by the
// path condition.

type rng struct{ lo, hi uint64 }

func (e *Engine) noteRangeFact(c *Term, v bool) {
	if c.Const {
		return
	}
	if c.Op == "not" {
		e.noteRangeFact(c.Args[0], !v)
		return
	}
	if c.Op == "and" && v {
		e.noteRangeFact(c.Args[0], true)
		e.noteRangeFact(c.Args[1], true)
		return
	}
	if c.Op == "or" && !v {
		e.noteRangeFact(c.Args[0], false)
		e.noteRangeFact(c.Args[1], false)
		return
	}
	if len(c.Args) != 2 {
		return
	}
	a, b := c.Args[0], c.Args[1]
	tighten := func(x *Term, lo, hi uint64) {
		if x.Op != "var" || x.S.K != 1 {
			return
		}
		r, ok := e.varRange[x]
		if !ok {
			r = rng{0, mask(x.S.W)}
		}
		if lo > r.lo {
			r.lo = lo
		}
		if hi < r.hi {
			r.hi = hi
		}
		e.varRange[x] = r
		e.rangeMemo = map[*Term]rng{}
	}
	switch c.Op {
	case "bvule": // a <= b
		if v {
			if b.Const {
				tighten(a, 0, b.V)
			}
			if a.Const {
				tighten(b, a.V, ^uint64(0))
			}
		} else { // a > b
			if b.Const && b.V != ^uint64(0) {
				tighten(a, b.V+1, ^uint64(0))
			}
			if a.Const && a.V != 0 {
				tighten(b, 0, a.V-1)
			}
		}
	case "bvult": // a < b
		if v {
			if b.Const && b.V != 0 {
				tighten(a, 0, b.V-1)
			}
			if a.Const && a.V != ^uint64(0) {
				tighten(b, a.V+1, ^uint64(0))
			}
		} else { // a >= b
			if b.Const {
				tighten(a, b.V, ^uint64(0))
			}
			if a.Const {
				tighten(b, 0, a.V)
			}
		}
	case "bvsle", "bvslt":
		// only the non-negative case: c <= x with c >= 0 gives a lower bound that also
		// excludes negative x; x <= c is only usable once x is known non-negative
		w := a.S.W
		strict := c.Op == "bvslt"
		if v {
			if a.Const && sext(a.V, w) >= 0 {
				lo := a.V
				if strict {
					lo++
				}
				tighten(b, lo, mask(w)>>1)
			}
			if b.Const && sext(b.V, w) >= 0 {
				if r, ok := e.varRange[a]; ok && r.hi <= mask(w)>>1 {
					hi := b.V
					if strict {
						if hi == 0 {
							return
						}
						hi--
					}
					tighten(a, 0, hi)
				}
			}
		}
	case "=":
		if v {
			if b.Const {
				tighten(a, b.V, b.V)
			}
			if a.Const {
				tighten(b, a.V, a.V)
			}
		}
	}
}

func (e *Engine) rangeOf(t *Term) rng {
	if t.Const {
		return rng{t.V, t.V}
	}
	if t.S.K != 1 {
		return rng{0, 1}
	}
	if r, ok := e.rangeMemo[t]; ok {
		return r
	}
	full := rng{0, mask(t.S.W)}
	r := full
	switch t.Op {
	case "var":
		if vr, ok := e.varRange[t]; ok {
			r = vr
		}
	case "bvadd":
		a, b := e.rangeOf(t.Args[0]), e.rangeOf(t.Args[1])
		if a.hi <= full.hi-b.hi || (full.hi == ^uint64(0) && a.hi+b.hi >= a.hi && false) {
			r = rng{a.lo + b.lo, a.hi + b.hi}
		}
	case "bvsub":
		a, b := e.rangeOf(t.Args[0]), e.rangeOf(t.Args[1])
		if a.lo >= b.hi {
			r = rng{a.lo - b.hi, a.hi - b.lo}
		}
	case "ite":
		a, b := e.rangeOf(t.Args[1]), e.rangeOf(t.Args[2])
		r = a
		if b.lo < r.lo {
			r.lo = b.lo
		}
		if b.hi > r.hi {
			r.hi = b.hi
		}
	case "zext":
		r = e.rangeOf(t.Args[0])
	case "sext":
		a := e.rangeOf(t.Args[0])
		if a.hi <= mask(t.Args[0].S.W)>>1 {
			r = a
		}
	case "extract":
		if t.P2 == 0 {
			a := e.rangeOf(t.Args[0])
			if a.hi <= full.hi {
				r = a
			}
		}
	case "bvand":
		a, b := e.rangeOf(t.Args[0]), e.rangeOf(t.Args[1])
		hi := a.hi
		if b.hi < hi {
			hi = b.hi
		}
		r = rng{0, hi}
	case "bvlshr":
		if t.Args[1].Const && t.Args[1].V < 64 {
			a := e.rangeOf(t.Args[0])
			r = rng{a.lo >> t.Args[1].V, a.hi >> t.Args[1].V}
		}
	case "bvmul":
		a, b := e.rangeOf(t.Args[0]), e.rangeOf(t.Args[1])
		if a.hi == 0 || b.hi <= full.hi/maxU(a.hi, 1) {
			r = rng{a.lo * b.lo, a.hi * b.hi}
		}
	}
	e.rangeMemo[t] = r
	return r
}

func maxU(a, b uint64) uint64 {
	if a > b {
		return a
	}
	return b
}

// rangeDecide tries to decide a condition from ranges alone.
func (e *Engine) rangeDecide(c *Term) (bool, bool) {
	if c.Const {
		return c.V == 1, true
	}
	switch c.Op {
	case "not":
		v, ok := e.rangeDecide(c.Args[0])
		return !v, ok
	case "and":
		v1, ok1 := e.rangeDecide(c.Args[0])
		v2, ok2 := e.rangeDecide(c.Args[1])
		if (ok1 && !v1) || (ok2 && !v2) {
			return false, true
		}
		if ok1 && ok2 {
			return true, true
		}
		return false, false
	case "or":
		v1, ok1 := e.rangeDecide(c.Args[0])
		v2, ok2 := e.rangeDecide(c.Args[1])
		if (ok1 && v1) || (ok2 && v2) {
			return true, true
		}
		if ok1 && ok2 {
			return false, true
		}
		return false, false
	}
	if len(c.Args) != 2 || c.Args[0].S.K != 1 {
		return false, false
	}
	a, b := e.rangeOf(c.Args[0]), e.rangeOf(c.Args[1])
	w := c.Args[0].S.W
	half := mask(w) >> 1
	switch c.Op {
	case "bvult":
		if a.hi < b.lo {
			return true, true
		}
		if a.lo >= b.hi {
			return false, true
		}
	case "bvule":
		if a.hi <= b.lo {
			return true, true
		}
		if a.lo > b.hi {
			return false, true
		}
	case "bvslt":
		if a.hi <= half && b.hi <= half {
			if a.hi < b.lo {
				return true, true
			}
			if a.lo >= b.hi {
				return false, true
			}
		}
	case "bvsle":
		if a.hi <= half && b.hi <= half {
			if a.hi <= b.lo {
				return true, true
			}
			if a.lo > b.hi {
				return false, true
			}
		}
	case "=":
		if a.hi < b.lo || b.hi < a.lo {
			return false, true
		}
		if a.lo == a.hi && b.lo == b.hi && a.lo == b.lo {
			return true, true
		}
	}
	return false, false
}
