package main

// Term layer: hash-consed bit-vector / bool / float terms with constant folding,
// SMT-LIB2 printing, and a persistent solver process.

import (
	"bufio"
	"fmt"
	"io"
	"math"
	"os"
	"os/exec"
	"strconv"
	"strings"
	"syscall"
	"time"
)

type Sort struct {
	K int // 0 bool, 1 bv, 2 fp64
	W int
}

var (
	BoolS = Sort{0, 0}
	FP64S = Sort{2, 64}
)

func BVS(w int) Sort { return Sort{1, w} }

func (s Sort) String() string {
	switch s.K {
	case 0:
		return "Bool"
	case 1:
		return fmt.Sprintf("(_ BitVec %d)", s.W)
	}
	return "(_ FloatingPoint 11 53)"
}

type Term struct {
	Op     string
	Args   []*Term
	S      Sort
	Const  bool
	V      uint64 // bv value (masked), bool 0/1, or float64 bits
	P1, P2 int    // parameters (extract hi/lo, extend amount)
	Name   string // for variables
	id     int
	ctx    *TermCtx
	fp     bool // mentions a floating-point term
	leaf   int8 // 1: an ite tree whose leaves are all constants, 2: not
}

var dbgF *os.File

func init() {
	if os.Getenv("GOSYM_DUMP") != "" {
		dbgF, _ = os.Create(os.Getenv("GOSYM_DUMP"))
	}
}

// TermCtx is a hash-consing table. Every worker owns one and replaces it at the
// start of each path, so no term outlives the path that created it and workers
// never share terms (constants carry no context and may be shared freely).
type TermCtx struct {
	tab map[string]*Term
	seq int
}

func NewTermCtx() *TermCtx { return &TermCtx{tab: map[string]*Term{}} }

var (
	TrueT  = &Term{Op: "const", S: BoolS, Const: true, V: 1}
	FalseT = &Term{Op: "const", S: BoolS, Const: true, V: 0}
)

func mask(w int) uint64 {
	if w >= 64 {
		return ^uint64(0)
	}
	return (uint64(1) << uint(w)) - 1
}

func BV(w int, v uint64) *Term { return &Term{Op: "const", S: BVS(w), Const: true, V: v & mask(w)} }
func BoolT(b bool) *Term {
	if b {
		return TrueT
	}
	return FalseT
}
func FPConst(f float64) *Term {
	return &Term{Op: "const", S: FP64S, Const: true, V: math.Float64bits(f)}
}

func mk(op string, s Sort, p1, p2 int, args ...*Term) *Term {
	var ctx *TermCtx
	var sb strings.Builder
	sb.WriteString(op)
	sb.WriteByte('|')
	sb.WriteString(strconv.Itoa(p1))
	sb.WriteByte('|')
	sb.WriteString(strconv.Itoa(p2))
	for _, a := range args {
		sb.WriteByte('|')
		if a.Const {
			sb.WriteString("c" + strconv.Itoa(a.S.K) + "." + strconv.Itoa(a.S.W) + "." + strconv.FormatUint(a.V, 16))
		} else {
			if ctx == nil {
				ctx = a.ctx
			} else if ctx != a.ctx {
				panic("gosym: terms of two contexts mixed in " + op)
			}
			sb.WriteString(strconv.Itoa(a.id))
		}
	}
	if ctx == nil {
		panic("gosym: mk " + op + " without a symbolic argument")
	}
	k := sb.String()
	if t, ok := ctx.tab[k]; ok {
		return t
	}
	ctx.seq++
	t := &Term{Op: op, Args: args, S: s, P1: p1, P2: p2, id: ctx.seq, ctx: ctx, fp: s.K == 2}
	for _, a := range args {
		if a.fp || a.S.K == 2 {
			t.fp = true
		}
	}
	ctx.tab[k] = t
	return t
}

func (ctx *TermCtx) Var(name string, s Sort) *Term {
	k := "var|" + name
	if t, ok := ctx.tab[k]; ok {
		return t
	}
	ctx.seq++
	t := &Term{Op: "var", S: s, Name: name, id: ctx.seq, ctx: ctx, fp: s.K == 2}
	ctx.tab[k] = t
	return t
}

func sext(v uint64, w int) int64 {
	if w >= 64 {
		return int64(v)
	}
	if v&(1<<uint(w-1)) != 0 {
		return int64(v | ^mask(w))
	}
	return int64(v)
}

// ---- bool ----
func Not(a *Term) *Term {
	if a.Const {
		return BoolT(a.V == 0)
	}
	if a.Op == "not" {
		return a.Args[0]
	}
	return mk("not", BoolS, 0, 0, a)
}
func And(a, b *Term) *Term {
	if a.Const {
		if a.V == 0 {
			return FalseT
		}
		return b
	}
	if b.Const {
		if b.V == 0 {
			return FalseT
		}
		return a
	}
	if a == b {
		return a
	}
	return mk("and", BoolS, 0, 0, a, b)
}
func Or(a, b *Term) *Term {
	if a.Const {
		if a.V == 1 {
			return TrueT
		}
		return b
	}
	if b.Const {
		if b.V == 1 {
			return TrueT
		}
		return a
	}
	if a == b {
		return a
	}
	return mk("or", BoolS, 0, 0, a, b)
}
func Ite(c, a, b *Term) *Term {
	if c.Const {
		if c.V == 1 {
			return a
		}
		return b
	}
	if a == b {
		return a
	}
	if a.Const && b.Const && a.S == b.S && a.V == b.V {
		return a
	}
	if a.S.K == 0 {
		if a.Const && b.Const {
			if a.V == 1 {
				return c
			}
			return Not(c)
		}
	}
	return mk("ite", a.S, 0, 0, c, a, b)
}
func Eq(a, b *Term) *Term {
	if a.Const && b.Const {
		return BoolT(a.V == b.V)
	}
	if a == b {
		return TrueT
	}
	if a.S.K == 2 {
		return mk("fp.eq", BoolS, 0, 0, a, b)
	}
	// (= (ite c x y) k) where every leaf of the ite tree is a constant: push the
	// comparison to the leaves (collapses to false when no leaf equals k)
	if b.Const && a.Op == "ite" && constLeaves(a) {
		return Ite(a.Args[0], Eq(a.Args[1], b), Eq(a.Args[2], b))
	}
	if a.Const && b.Op == "ite" && constLeaves(b) {
		return Eq(b, a)
	}
	return mk("=", BoolS, 0, 0, a, b)
}

// ---- bv ----
func bin(op string, a, b *Term, f func(x, y uint64, w int) (uint64, bool)) *Term {
	if a.Const && b.Const && f != nil {
		if v, ok := f(a.V, b.V, a.S.W); ok {
			return BV(a.S.W, v)
		}
		panic("gosym: unfoldable constant operation " + op)
	}
	return mk(op, a.S, 0, 0, a, b)
}
func Add(a, b *Term) *Term {
	if a.Const && a.V == 0 {
		return b
	}
	if b.Const && b.V == 0 {
		return a
	}
	return bin("bvadd", a, b, func(x, y uint64, w int) (uint64, bool) { return x + y, true })
}
func Sub(a, b *Term) *Term {
	if b.Const && b.V == 0 {
		return a
	}
	if a == b {
		return BV(a.S.W, 0)
	}
	return bin("bvsub", a, b, func(x, y uint64, w int) (uint64, bool) { return x - y, true })
}
func Mul(a, b *Term) *Term {
	if a.Const && a.V == 1 {
		return b
	}
	if b.Const && b.V == 1 {
		return a
	}
	return bin("bvmul", a, b, func(x, y uint64, w int) (uint64, bool) { return x * y, true })
}
func UDiv(a, b *Term) *Term {
	return bin("bvudiv", a, b, func(x, y uint64, w int) (uint64, bool) {
		if y == 0 {
			return mask(w), true // SMT-LIB; Go panics first (the engine forks on y == 0)
		}
		return x / y, true
	})
}
func URem(a, b *Term) *Term {
	return bin("bvurem", a, b, func(x, y uint64, w int) (uint64, bool) {
		if y == 0 {
			return x, true
		}
		return x % y, true
	})
}
func SDiv(a, b *Term) *Term {
	return bin("bvsdiv", a, b, func(x, y uint64, w int) (uint64, bool) {
		if y == 0 {
			if sext(x, w) < 0 {
				return 1, true
			}
			return mask(w), true
		}
		sx, sy := sext(x, w), sext(y, w)
		if sy == -1 {
			return uint64(-sx), true
		}
		return uint64(sx / sy), true
	})
}
func SRem(a, b *Term) *Term {
	return bin("bvsrem", a, b, func(x, y uint64, w int) (uint64, bool) {
		if y == 0 {
			return x, true
		}
		sx, sy := sext(x, w), sext(y, w)
		if sy == -1 {
			return 0, true
		}
		return uint64(sx % sy), true
	})
}
func BAnd(a, b *Term) *Term {
	return bin("bvand", a, b, func(x, y uint64, w int) (uint64, bool) { return x & y, true })
}
func BOr(a, b *Term) *Term {
	return bin("bvor", a, b, func(x, y uint64, w int) (uint64, bool) { return x | y, true })
}
func BXor(a, b *Term) *Term {
	return bin("bvxor", a, b, func(x, y uint64, w int) (uint64, bool) { return x ^ y, true })
}
func Shl(a, b *Term) *Term {
	return bin("bvshl", a, b, func(x, y uint64, w int) (uint64, bool) {
		if y >= uint64(w) {
			return 0, true
		}
		return x << y, true
	})
}
func Lshr(a, b *Term) *Term {
	return bin("bvlshr", a, b, func(x, y uint64, w int) (uint64, bool) {
		if y >= uint64(w) {
			return 0, true
		}
		return x >> y, true
	})
}
func Ashr(a, b *Term) *Term {
	return bin("bvashr", a, b, func(x, y uint64, w int) (uint64, bool) {
		sx := sext(x, w)
		if y >= uint64(w) {
			if sx < 0 {
				return ^uint64(0), true
			}
			return 0, true
		}
		return uint64(sx >> y), true
	})
}

// constLeaves: t is a constant or an ite tree over constants (bounded size).
func constLeaves(t *Term) bool {
	if t.Const {
		return true
	}
	if t.Op != "ite" {
		return false
	}
	if t.leaf == 0 {
		if constLeaves(t.Args[1]) && constLeaves(t.Args[2]) {
			t.leaf = 1
		} else {
			t.leaf = 2
		}
	}
	return t.leaf == 1
}

func cmp(op string, a, b *Term, f func(x, y uint64, w int) bool) *Term {
	if a.Const && b.Const {
		return BoolT(f(a.V, b.V, a.S.W))
	}
	if b.Const && a.Op == "ite" && constLeaves(a) {
		return Ite(a.Args[0], cmp(op, a.Args[1], b, f), cmp(op, a.Args[2], b, f))
	}
	if a.Const && b.Op == "ite" && constLeaves(b) {
		return Ite(b.Args[0], cmp(op, a, b.Args[1], f), cmp(op, a, b.Args[2], f))
	}
	if a == b {
		return BoolT(f(0, 0, a.S.W))
	}
	return mk(op, BoolS, 0, 0, a, b)
}
func Ult(a, b *Term) *Term { return cmp("bvult", a, b, func(x, y uint64, w int) bool { return x < y }) }
func Ule(a, b *Term) *Term {
	return cmp("bvule", a, b, func(x, y uint64, w int) bool { return x <= y })
}
func Slt(a, b *Term) *Term {
	return cmp("bvslt", a, b, func(x, y uint64, w int) bool { return sext(x, w) < sext(y, w) })
}
func Sle(a, b *Term) *Term {
	return cmp("bvsle", a, b, func(x, y uint64, w int) bool { return sext(x, w) <= sext(y, w) })
}
func ZExt(a *Term, to int) *Term {
	if a.S.W == to {
		return a
	}
	if a.Const {
		return BV(to, a.V)
	}
	return mk("zext", BVS(to), to-a.S.W, 0, a)
}
func SExt(a *Term, to int) *Term {
	if a.S.W == to {
		return a
	}
	if a.Const {
		return BV(to, uint64(sext(a.V, a.S.W)))
	}
	return mk("sext", BVS(to), to-a.S.W, 0, a)
}
func Trunc(a *Term, to int) *Term {
	if a.S.W == to {
		return a
	}
	if a.Const {
		return BV(to, a.V)
	}
	if (a.Op == "zext" || a.Op == "sext") && a.Args[0].S.W == to {
		return a.Args[0]
	}
	return mk("extract", BVS(to), to-1, 0, a)
}

// ---- fp ----
func fbin(op string, a, b *Term, f func(x, y float64) float64) *Term {
	if a.Const && b.Const {
		return FPConst(f(math.Float64frombits(a.V), math.Float64frombits(b.V)))
	}
	return mk(op, FP64S, 0, 0, a, b)
}
func FAdd(a, b *Term) *Term { return fbin("fp.add", a, b, func(x, y float64) float64 { return x + y }) }
func FSub(a, b *Term) *Term { return fbin("fp.sub", a, b, func(x, y float64) float64 { return x - y }) }
func FMul(a, b *Term) *Term { return fbin("fp.mul", a, b, func(x, y float64) float64 { return x * y }) }
func FDiv(a, b *Term) *Term { return fbin("fp.div", a, b, func(x, y float64) float64 { return x / y }) }
func FLt(a, b *Term) *Term {
	if a.Const && b.Const {
		return BoolT(math.Float64frombits(a.V) < math.Float64frombits(b.V))
	}
	return mk("fp.lt", BoolS, 0, 0, a, b)
}
func FLe(a, b *Term) *Term {
	if a.Const && b.Const {
		return BoolT(math.Float64frombits(a.V) <= math.Float64frombits(b.V))
	}
	return mk("fp.leq", BoolS, 0, 0, a, b)
}
func SIntToFP(a *Term) *Term {
	if a.Const {
		return FPConst(float64(sext(a.V, a.S.W)))
	}
	return mk("to_fp_s", FP64S, 0, 0, a)
}
func UIntToFP(a *Term) *Term {
	if a.Const {
		return FPConst(float64(a.V))
	}
	return mk("to_fp_u", FP64S, 0, 0, a)
}
func FPToSInt(a *Term, w int) *Term {
	if a.Const {
		return BV(w, uint64(int64(math.Float64frombits(a.V))))
	}
	return mk("fp.to_sbv", BVS(w), w, 0, a)
}
func FPToUInt(a *Term, w int) *Term {
	if a.Const {
		return BV(w, uint64(math.Float64frombits(a.V)))
	}
	return mk("fp.to_ubv", BVS(w), w, 0, a)
}

// ---- printing ----
func constStr(t *Term) string {
	switch t.S.K {
	case 0:
		if t.V == 1 {
			return "true"
		}
		return "false"
	case 1:
		if t.S.W%4 == 0 {
			return fmt.Sprintf("#x%0*x", t.S.W/4, t.V)
		}
		return fmt.Sprintf("#b%0*b", t.S.W, t.V)
	}
	return fmt.Sprintf("((_ to_fp 11 53) #x%016x)", t.V)
}

type printer struct {
	sb      *strings.Builder
	defined map[int]bool
	usesFP  bool
}

func (p *printer) ref(t *Term) string {
	if t.Const {
		if t.S.K == 2 {
			p.usesFP = true
		}
		return constStr(t)
	}
	if t.Op == "var" {
		if !p.defined[t.id] {
			p.defined[t.id] = true
			fmt.Fprintf(p.sb, "(declare-const %s %s)\n", t.Name, t.S)
		}
		if t.S.K == 2 {
			p.usesFP = true
		}
		return t.Name
	}
	name := "t" + strconv.Itoa(t.id)
	if p.defined[t.id] {
		return name
	}
	args := make([]string, len(t.Args))
	for i, a := range t.Args {
		args[i] = p.ref(a)
	}
	var e string
	switch t.Op {
	case "zext":
		e = fmt.Sprintf("((_ zero_extend %d) %s)", t.P1, args[0])
	case "sext":
		e = fmt.Sprintf("((_ sign_extend %d) %s)", t.P1, args[0])
	case "extract":
		e = fmt.Sprintf("((_ extract %d %d) %s)", t.P1, t.P2, args[0])
	case "fp.add", "fp.sub", "fp.mul", "fp.div":
		p.usesFP = true
		e = fmt.Sprintf("(%s RNE %s %s)", t.Op, args[0], args[1])
	case "to_fp_s":
		p.usesFP = true
		e = fmt.Sprintf("((_ to_fp 11 53) RNE %s)", args[0])
	case "to_fp_u":
		p.usesFP = true
		e = fmt.Sprintf("((_ to_fp_unsigned 11 53) RNE %s)", args[0])
	case "fp.to_sbv":
		p.usesFP = true
		e = fmt.Sprintf("((_ fp.to_sbv %d) RTZ %s)", t.P1, args[0])
	case "fp.to_ubv":
		p.usesFP = true
		e = fmt.Sprintf("((_ fp.to_ubv %d) RTZ %s)", t.P1, args[0])
	default:
		e = "(" + t.Op + " " + strings.Join(args, " ") + ")"
	}
	p.defined[t.id] = true
	fmt.Fprintf(p.sb, "(define-fun %s () %s %s)\n", name, t.S, e)
	return name
}

// ---- solver ----
type Solver struct {
	name    string
	cmd     *exec.Cmd
	in      io.WriteCloser
	out     *bufio.Reader
	Queries int
	Time    time.Duration
	Bytes   int
	p       *printer
	sent    int
	MaxT    time.Duration
	dead    bool
}

var solverTimeoutMS = 20000

func NewSolver(kind string) *Solver {
	var cmd *exec.Cmd
	// memory limit 4 GiB per solver process; the shell wrapper applies it
	switch kind {
	case "cvc5":
		cmd = exec.Command("sh", "-c", fmt.Sprintf("ulimit -v 6291456; exec cvc5 --incremental --produce-models --lang=smt2 --tlimit-per=%d", 6*solverTimeoutMS))
	case "z3":
		cmd = exec.Command("sh", "-c", fmt.Sprintf("ulimit -v 4194304; exec z3 -in -t:%d", solverTimeoutMS))
	default:
		kind = "z3-new"
		cmd = exec.Command("sh", "-c", fmt.Sprintf("ulimit -v 4194304; exec z3-new -in -t:%d", solverTimeoutMS))
	}
	cmd.SysProcAttr = &syscall.SysProcAttr{Pdeathsig: syscall.SIGKILL}
	in, _ := cmd.StdinPipe()
	out, _ := cmd.StdoutPipe()
	cmd.Stderr = cmd.Stdout
	if err := cmd.Start(); err != nil {
		panic(err)
	}
	s := &Solver{name: kind, cmd: cmd, in: in, out: bufio.NewReaderSize(out, 1<<16)}
	if kind == "cvc5" {
		io.WriteString(in, "(set-logic ALL)\n")
	}
	return s
}

func (s *Solver) Close() {
	if s.dead {
		return
	}
	s.dead = true
	s.in.Close()
	done := make(chan struct{})
	go func() { s.cmd.Wait(); close(done) }()
	select {
	case <-done:
	case <-time.After(2 * time.Second):
		s.cmd.Process.Kill()
		<-done
	}
}

func (s *Solver) Kill() {
	if s.dead {
		return
	}
	s.dead = true
	s.cmd.Process.Kill()
	s.in.Close()
	s.cmd.Wait()
}

// Incremental use within one path: Reset, then Assert the path condition as it
// grows; Check(extra) asks about pc && extra without keeping extra.
func (s *Solver) Reset() {
	io.WriteString(s.in, "(reset)\n")
	if s.name == "cvc5" {
		io.WriteString(s.in, "(set-logic ALL)\n")
	}
	s.p = &printer{sb: &strings.Builder{}, defined: map[int]bool{}}
	s.sent = 0
}

func (s *Solver) flush() {
	if s.p.sb.Len() > 0 {
		if dbgF != nil {
			dbgF.WriteString(s.p.sb.String())
		}
		s.Bytes += s.p.sb.Len()
		io.WriteString(s.in, s.p.sb.String())
		s.p.sb.Reset()
	}
}

func (s *Solver) Assert(t *Term) {
	r := s.p.ref(t)
	fmt.Fprintf(s.p.sb, "(assert %s)\n", r)
}

func (s *Solver) readLine() string {
	line, err := s.out.ReadString('\n')
	if err != nil {
		panic("solver " + s.name + " died: " + err.Error())
	}
	return line
}

// Check returns sat/unsat/unknown; any (error ...) line or unexpected output
// makes the answer "unknown" (inconclusive), never a verdict.
func (s *Solver) Check(extra *Term, vars []*Term) (string, map[string]uint64) {
	t0 := time.Now()
	defer func() { s.Time += time.Since(t0); s.Queries++ }()
	r := s.p.ref(extra) // definitions go to the base level
	var names []string
	for _, v := range vars {
		s.p.ref(v) // declare every input so that the model is total
		names = append(names, v.Name)
	}
	fmt.Fprintf(s.p.sb, "(push 1)\n(assert %s)\n(check-sat)\n", r)
	s.flush()
	res := strings.TrimSpace(s.readLine())
	if res != "sat" && res != "unsat" && res != "unknown" {
		// error or garbage: resynchronise with an echo marker
		fmt.Fprintf(os.Stderr, "gosym: solver %s said %q\n", s.name, res)
		io.WriteString(s.in, "(pop 1)\n(echo \"sync-marker\")\n")
		for i := 0; i < 1000; i++ {
			if strings.Contains(s.readLine(), "sync-marker") {
				break
			}
		}
		return "unknown", nil
	}
	var model map[string]uint64
	if res == "sat" && len(names) > 0 {
		model = map[string]uint64{}
		if dbgF != nil {
			fmt.Fprintf(dbgF, "(get-value (%s))\n", strings.Join(names, " "))
		}
		fmt.Fprintf(s.in, "(get-value (%s))\n", strings.Join(names, " "))
		depth, started := 0, false
		var sb strings.Builder
		for !started || depth > 0 {
			l := s.readLine()
			for _, c := range l {
				if c == '(' {
					depth++
					started = true
				} else if c == ')' {
					depth--
				}
			}
			sb.WriteString(l)
			if !started && strings.TrimSpace(l) != "" {
				break
			}
		}
		parseModel(sb.String(), model)
	}
	if dbgF != nil {
		dbgF.WriteString("; result " + res + "\n(pop 1)\n")
	}
	io.WriteString(s.in, "(pop 1)\n")
	if d := time.Since(t0); d > s.MaxT {
		s.MaxT = d
	}
	return res, model
}

// ---- s-expressions (get-value output) ----
type sexp struct {
	atom string
	list []*sexp
}

func parseSexp(s string, i int) (*sexp, int) {
	for i < len(s) && (s[i] == ' ' || s[i] == '\n' || s[i] == '\t' || s[i] == '\r') {
		i++
	}
	if i >= len(s) {
		return nil, i
	}
	if s[i] == '(' {
		x := &sexp{list: []*sexp{}}
		i++
		for {
			for i < len(s) && (s[i] == ' ' || s[i] == '\n' || s[i] == '\t' || s[i] == '\r') {
				i++
			}
			if i >= len(s) {
				return x, i
			}
			if s[i] == ')' {
				return x, i + 1
			}
			var c *sexp
			c, i = parseSexp(s, i)
			if c == nil {
				return x, i
			}
			x.list = append(x.list, c)
		}
	}
	j := i
	for j < len(s) && s[j] != ' ' && s[j] != '\n' && s[j] != '(' && s[j] != ')' && s[j] != '\t' && s[j] != '\r' {
		j++
	}
	return &sexp{atom: s[i:j]}, j
}

func parseModel(txt string, model map[string]uint64) {
	x, _ := parseSexp(txt, 0)
	if x == nil {
		return
	}
	for _, pair := range x.list {
		if len(pair.list) != 2 || pair.list[0].atom == "" {
			continue
		}
		model[pair.list[0].atom] = sexpVal(pair.list[1])
	}
}

func atomBits(a string) (uint64, int) {
	switch {
	case strings.HasPrefix(a, "#x"):
		v, _ := strconv.ParseUint(a[2:], 16, 64)
		return v, 4 * (len(a) - 2)
	case strings.HasPrefix(a, "#b"):
		v, _ := strconv.ParseUint(a[2:], 2, 64)
		return v, len(a) - 2
	}
	return 0, 0
}

func sexpVal(x *sexp) uint64 {
	if x.atom != "" {
		switch x.atom {
		case "true":
			return 1
		case "false":
			return 0
		}
		v, _ := atomBits(x.atom)
		return v
	}
	if len(x.list) == 4 && x.list[0].atom == "fp" {
		sg, _ := atomBits(x.list[1].atom)
		ex, _ := atomBits(x.list[2].atom)
		mn, _ := atomBits(x.list[3].atom)
		return sg<<63 | ex<<52 | mn
	}
	if len(x.list) == 4 && x.list[0].atom == "_" {
		switch x.list[1].atom {
		case "+zero":
			return 0
		case "-zero":
			return 1 << 63
		case "+oo":
			return 0x7ff << 52
		case "-oo":
			return 0xfff << 52
		case "NaN":
			return 0x7ff8 << 48
		}
		if strings.HasPrefix(x.list[1].atom, "bv") { // (_ bv10 32)
			v, _ := strconv.ParseUint(x.list[1].atom[2:], 10, 64)
			return v
		}
	}
	return 0
}
