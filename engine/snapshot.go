package main

// Per-worker cache of the package-initialiser phase. The initialisers on a run's
// list are deterministic and touch no symbolic input, so their effect (the
// contents of all package-level variables and everything reachable from them)
// is computed once per worker and deep-copied at the start of every later path,
// preserving aliasing (including pointers into the middle of structs, arrays and
// slices).

import (
	"fmt"
	"os"

	"golang.org/x/tools/go/ssa"
)

type initSnapshot struct {
	globals  map[*ssa.Global]*value
	initDone map[*ssa.Package]bool
	mutexes  map[*value]*mutexState
	onces    map[*value]bool
	objs     map[interface{}]interface{}
	skipped  []string
	interior map[*value]aggInfo
	tmpls    map[*value]*tmplState
}

type aggInfo struct {
	elems []value // the aggregate's backing slice
	idx   int
}

type copier struct {
	interior map[*value]aggInfo // address of an element -> its aggregate
	seenPtr  map[*value]bool
	seenAgg  map[*value]bool // keyed by address of element 0
	cells    map[*value]*value
	aggs     map[*value][]value // old &elems[0] -> new backing slice
	bytes    map[*byteArr]*byteArr
	slices   map[*[]value]*[]value
	maps     map[*mapV]*mapV
	chans    map[*chanObj]*chanObj
	closures map[*closure]*closure
	onCopy   func(old, new *value)
}

func newCopier() *copier {
	return &copier{interior: map[*value]aggInfo{}, seenPtr: map[*value]bool{}, seenAgg: map[*value]bool{}, cells: map[*value]*value{},
		aggs: map[*value][]value{}, bytes: map[*byteArr]*byteArr{}, slices: map[*[]value]*[]value{}, maps: map[*mapV]*mapV{},
		chans: map[*chanObj]*chanObj{}, closures: map[*closure]*closure{}}
}

// discover registers the element addresses of every aggregate reachable from v.
func (c *copier) discover(v value) {
	switch x := v.(type) {
	case *value:
		if x == nil || c.seenPtr[x] {
			return
		}
		c.seenPtr[x] = true
		c.discover(*x)
	case structV:
		c.discoverAgg([]value(x))
	case arrayV:
		c.discoverAgg([]value(x))
	case tuple:
		for _, e := range x {
			c.discover(e)
		}
	case *sliceV:
		if x != nil && x.arr != nil {
			c.discoverAgg(*x.arr)
		}
	case *mapV:
		if x == nil || c.maps[x] != nil {
			return
		}
		c.maps[x] = &mapV{}
		for i := range x.keys {
			c.discover(x.keys[i])
			c.discover(x.vals[i])
		}
	case iface:
		c.discover(x.v)
	case *closure:
		if x == nil || c.closures[x] != nil {
			return
		}
		c.closures[x] = &closure{fn: x.fn}
		for _, e := range x.env {
			c.discover(e)
		}
	case *boundMethod:
		if x != nil {
			c.discover(x.recv)
		}
	case *chanObj:
		if x != nil {
			for _, e := range x.buf {
				c.discover(e)
			}
		}
	}
}

func (c *copier) discoverAgg(elems []value) {
	if len(elems) == 0 {
		return
	}
	key := &elems[0]
	if c.seenAgg[key] {
		return
	}
	c.seenAgg[key] = true
	for i := range elems {
		c.interior[&elems[i]] = aggInfo{elems, i}
	}
	for i := range elems {
		c.discover(elems[i])
	}
}

func (c *copier) copyAgg(elems []value) []value {
	if len(elems) == 0 {
		return make([]value, 0)
	}
	key := &elems[0]
	if n, ok := c.aggs[key]; ok {
		return n
	}
	n := make([]value, len(elems), cap(elems))
	c.aggs[key] = n
	for i := range elems {
		n[i] = c.copy(elems[i])
	}
	return n
}

func (c *copier) copy(v value) value {
	switch x := v.(type) {
	case *value:
		if x == nil {
			return x
		}
		if info, ok := c.interior[x]; ok {
			n := c.copyAgg(info.elems)
			if c.onCopy != nil {
				c.onCopy(x, &n[info.idx])
			}
			return &n[info.idx]
		}
		if n, ok := c.cells[x]; ok {
			return n
		}
		n := new(value)
		c.cells[x] = n
		if c.onCopy != nil {
			c.onCopy(x, n)
		}
		*n = c.copy(*x)
		return n
	case structV:
		return structV(c.copyAgg([]value(x)))
	case arrayV:
		return arrayV(c.copyAgg([]value(x)))
	case tuple:
		n := make(tuple, len(x))
		for i := range x {
			n[i] = c.copy(x[i])
		}
		return n
	case *sliceV:
		if x == nil {
			return x
		}
		n := *x
		if x.arr != nil {
			if na, ok := c.slices[x.arr]; ok {
				n.arr = na
			} else {
				full := c.copyAgg(*x.arr)
				na := &full
				c.slices[x.arr] = na
				n.arr = na
			}
		}
		return &n
	case *bytesV:
		if x == nil {
			return x
		}
		n := *x
		if x.arr != nil {
			if na, ok := c.bytes[x.arr]; ok {
				n.arr = na
			} else {
				na := &byteArr{b: append([]*Term(nil), x.arr.b...)}
				c.bytes[x.arr] = na
				n.arr = na
			}
		}
		return &n
	case byteArrayV:
		if na, ok := c.bytes[x.a]; ok {
			return byteArrayV{na}
		}
		na := &byteArr{b: append([]*Term(nil), x.a.b...)}
		c.bytes[x.a] = na
		return byteArrayV{na}
	case *bytePtr:
		n := *x
		if na, ok := c.bytes[x.arr]; ok {
			n.arr = na
		} else {
			na := &byteArr{b: append([]*Term(nil), x.arr.b...)}
			c.bytes[x.arr] = na
			n.arr = na
		}
		return &n
	case *mapV:
		if x == nil {
			return x
		}
		n := c.maps[x]
		if n == nil {
			n = &mapV{}
			c.maps[x] = n
		}
		if len(n.keys) == 0 && len(x.keys) > 0 {
			n.keys = make([]value, len(x.keys))
			n.vals = make([]value, len(x.vals))
			n.dead = append([]bool(nil), x.dead...)
			for i := range x.keys {
				n.keys[i] = c.copy(x.keys[i])
				n.vals[i] = c.copy(x.vals[i])
			}
		}
		return n
	case iface:
		return iface{t: x.t, v: c.copy(x.v)}
	case *closure:
		if x == nil {
			return x
		}
		n := c.closures[x]
		if n == nil {
			n = &closure{fn: x.fn}
			c.closures[x] = n
		}
		if n.env == nil && len(x.env) > 0 {
			n.env = make([]value, len(x.env))
			for i := range x.env {
				n.env[i] = c.copy(x.env[i])
			}
		}
		return n
	case *boundMethod:
		if x == nil {
			return x
		}
		return &boundMethod{fn: x.fn, recv: c.copy(x.recv)}
	case *chanObj:
		if x == nil {
			return x
		}
		if n, ok := c.chans[x]; ok {
			return n
		}
		n := &chanObj{cap: x.cap, closed: x.closed, elem: x.elem, id: x.id}
		c.chans[x] = n
		for _, e := range x.buf {
			n.buf = append(n.buf, c.copy(e))
		}
		return n
	}
	return v // terms, functions, nil, poison, builtins: immutable
}

// takeSnapshot records the state right after the initialiser phase.
func (e *Engine) takeSnapshot() {
	s := &initSnapshot{globals: map[*ssa.Global]*value{}, initDone: map[*ssa.Package]bool{}, mutexes: map[*value]*mutexState{}, onces: map[*value]bool{}, skipped: e.skippedInit}
	// the snapshot itself must not alias the running path: store a private copy
	c := newCopier()
	for _, p := range e.globals {
		c.discover(p)
	}
	for g, p := range e.globals {
		s.globals[g] = c.copy(p).(*value)
	}
	for k, v := range e.initDone {
		s.initDone[k] = v
	}
	for k, v := range e.onces {
		s.onces[c.copy(k).(*value)] = v
	}
	s.tmpls = map[*value]*tmplState{}
	for k, v := range e.objs {
		if t, ok := v.(*tmplState); ok {
			if kp, ok := k.(*value); ok {
				s.tmpls[c.copy(kp).(*value)] = t
			}
		}
	}
	for k, v := range e.mutexes {
		if v.locked {
			e.snapshotUnsafe = true
			return
		}
		s.mutexes[c.copy(k).(*value)] = &mutexState{}
	}
	// engine-side state keyed by cell addresses (mutexes, onces, objs) is only
	// carried over when the initialisers created none, which is the normal case
	if nonOnceObjs(e.objs) > 0 || len(e.ws) > 0 || len(e.timers) > 0 || len(e.threads) > 1 {
		e.snapshotUnsafe = true
		if os.Getenv("GOSYM_DEBUG") != "" {
			fmt.Fprintf(os.Stderr, "snapshot disabled: mutexes=%d onces=%d objs=%d ws=%d timers=%d threads=%d\n", len(e.mutexes), len(e.onces), len(e.objs), len(e.ws), len(e.timers), len(e.threads))
		}
		return
	}
	c2 := newCopier()
	for _, p := range s.globals {
		c2.discover(p)
	}
	s.interior = c2.interior
	e.snapshot_ = s
}

// restoreSnapshot prepares lazy, aliasing-preserving copies of the snapshot:
// a package-level variable is copied (with everything reachable from it) on its
// first access in the path; one copier per path keeps shared structure shared.
func (e *Engine) restoreSnapshot() {
	s := e.snapshot_
	c := newCopier()
	c.interior = s.interior
	c.onCopy = func(old, n *value) {
		if v, ok := s.onces[old]; ok {
			e.onces[n] = v
		}
		if t, ok := s.tmpls[old]; ok {
			e.objs[n] = t
		}
	}
	e.pathCopier = c
	e.globals = make(map[*ssa.Global]*value, 64)
	e.initDone = make(map[*ssa.Package]bool, len(s.initDone))
	for k, v := range s.initDone {
		e.initDone[k] = v
	}
}

func nonOnceObjs(m map[interface{}]interface{}) int {
	n := 0
	for _, v := range m {
		switch v.(type) {
		case *onceState, *tmplState:
		default:
			n++
		}
	}
	return n
}
