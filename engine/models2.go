package main

// Models of context, time (virtual clock and timers), sync/atomic, sync.Map,
// sync.RWMutex, sync.Pool.

import (
	"fmt"
	"go/types"
	"sort"
	"strings"
	"time"
	"unicode"
)

// ---------------------------------------------------------------------------
// context

type ctxState struct {
	done     *chanObj
	err      value
	children []*value
	parent   *value
	after    []*afterFn // context.AfterFunc registrations
}

type afterFn struct {
	f              value
	fired, stopped bool
}

func (e *Engine) ctxStateOf(p *value) *ctxState {
	s, _ := e.objs[p].(*ctxState)
	return s
}

func (e *Engine) newChan(elem types.Type, c int) *chanObj {
	e.chanSeq++
	return &chanObj{cap: c, elem: elem, id: e.chanSeq}
}

var emptyStruct = types.NewStruct(nil, nil)

// nearestCancel walks the parent chain to the nearest modelled cancel context.
func (e *Engine) nearestCancel(parent iface) *value {
	for depth := 0; depth < 64 && parent.t != nil; depth++ {
		p, ok := parent.v.(*value)
		if !ok || p == nil {
			return nil
		}
		if e.ctxStateOf(p) != nil {
			return p
		}
		// *valueCtx: follow its embedded Context
		if pt, ok := parent.t.(*types.Pointer); ok {
			if n, ok := pt.Elem().(*types.Named); ok && n.Obj().Pkg() != nil && n.Obj().Pkg().Path() == "context" && n.Obj().Name() == "valueCtx" {
				parent, _ = (*p).(structV)[0].(iface)
				continue
			}
		}
		return nil
	}
	return nil
}

func (e *Engine) cancelCtx(p *value, err value) {
	s := e.ctxStateOf(p)
	if s == nil || s.err != nil {
		return
	}
	s.err = err
	e.hbRelease(s)
	if s.done == nil {
		s.done = e.newChan(emptyStruct, 0)
	}
	if !s.done.closed {
		e.hbRelease(s.done)
		s.done.closed = true
	}
	// context.AfterFunc: each registered function runs in its own goroutine
	for _, a := range s.after {
		if !a.fired && !a.stopped {
			a.fired = true
			e.spawn(a.f, nil)
		}
	}
	kids := s.children
	s.children = nil
	for _, k := range kids {
		e.cancelCtx(k, err)
	}
	if s.parent != nil {
		if ps := e.ctxStateOf(s.parent); ps != nil {
			for i, k := range ps.children {
				if k == p {
					ps.children = append(ps.children[:i:i], ps.children[i+1:]...)
					break
				}
			}
		}
	}
}

func (e *Engine) ctxErr(name string) value {
	return e.load(e.global(e.globalVar("context", name)))
}

func (e *Engine) withCancel(parent iface) (iface, *value) {
	if parent.t == nil {
		e.rtPanic("cannot create context from nil parent")
	}
	ct := e.namedType("context", "cancelCtx")
	p := new(value)
	sv := zero(ct).(structV)
	sv[0] = parent // embedded Context
	*p = sv
	s := &ctxState{}
	e.objs[p] = s
	if anc := e.nearestCancel(parent); anc != nil {
		as := e.ctxStateOf(anc)
		if as.err != nil {
			e.cancelCtx(p, as.err)
		} else {
			as.children = append(as.children, p)
			s.parent = anc
		}
	}
	return iface{t: types.NewPointer(ct), v: p}, p
}

func (e *Engine) setupCtx() {
	x := e.ext
	x["context.WithCancel"] = func(e *Engine, fr *frame, a []value) value {
		c, p := e.withCancel(a[0].(iface))
		cancel := &nativeFn{name: "context.CancelFunc", f: func(e *Engine, args []value) value {
			e.yield()
			e.cancelCtx(p, e.ctxErr("Canceled"))
			return nil
		}}
		return tuple{c, cancel}
	}
	withDeadline := func(e *Engine, parent iface, d int64) value {
		c, p := e.withCancel(parent)
		t := &timerObj{at: e.clock + d, native: func() { e.cancelCtx(p, e.ctxErr("DeadlineExceeded")) }}
		if d <= 0 {
			e.cancelCtx(p, e.ctxErr("DeadlineExceeded"))
		} else {
			e.timers = append(e.timers, t)
		}
		cancel := &nativeFn{name: "context.CancelFunc", f: func(e *Engine, args []value) value {
			e.yield()
			t.stopped = true
			e.cancelCtx(p, e.ctxErr("Canceled"))
			return nil
		}}
		return tuple{c, cancel}
	}
	x["context.WithTimeout"] = func(e *Engine, fr *frame, a []value) value {
		return withDeadline(e, a[0].(iface), int64(e.concretize(a[1].(*Term), -1<<62, 1<<62)))
	}
	x["context.WithDeadline"] = func(e *Engine, fr *frame, a []value) value {
		ns, ok := e.timeNs(a[1])
		if !ok {
			e.end("unsupported", "context.WithDeadline with a symbolic time")
		}
		return withDeadline(e, a[0].(iface), ns-e.clock)
	}
	x["(*context.cancelCtx).Done"] = func(e *Engine, fr *frame, a []value) value {
		s := e.ctxStateOf(a[0].(*value))
		if s == nil {
			e.end("unsupported", "context: cancelCtx that was not created by the model")
		}
		if s.done == nil {
			s.done = e.newChan(emptyStruct, 0)
		}
		return s.done
	}
	x["(*context.cancelCtx).Err"] = func(e *Engine, fr *frame, a []value) value {
		s := e.ctxStateOf(a[0].(*value))
		if s == nil {
			e.end("unsupported", "context: cancelCtx that was not created by the model")
		}
		e.hbAcquire(s)
		if s.err == nil {
			return e.errNil()
		}
		return s.err
	}
	x["context.AfterFunc"] = func(e *Engine, fr *frame, a []value) value {
		parent := a[0].(iface)
		if parent.t == nil {
			e.rtPanic("cannot create context from nil parent")
		}
		reg := &afterFn{f: a[1]}
		if anc := e.nearestCancel(parent); anc != nil {
			as := e.ctxStateOf(anc)
			if as.err != nil {
				reg.fired = true
				e.spawn(reg.f, nil)
			} else {
				as.after = append(as.after, reg)
			}
		}
		// a context that can never be cancelled never runs f
		return &nativeFn{name: "context.AfterFunc.stop", f: func(e *Engine, args []value) value {
			e.yield()
			if reg.fired || reg.stopped {
				return BoolT(false)
			}
			reg.stopped = true
			return BoolT(true)
		}}
	}
	x["context.WithValue"] = func(e *Engine, fr *frame, a []value) value {
		vt := e.namedType("context", "valueCtx")
		p := new(value)
		sv := zero(vt).(structV)
		sv[0], sv[1], sv[2] = a[0], a[1], a[2]
		*p = sv
		return iface{t: types.NewPointer(vt), v: p}
	}
	x["context.Cause"] = func(e *Engine, fr *frame, a []value) value {
		return e.callMethod(a[0].(iface), "Err")
	}
}

// ---------------------------------------------------------------------------
// time: a concrete virtual clock (nanoseconds since the base instant) that
// advances only through Sleep and through timers firing when nothing else can
// run.

const (
	unixToInternal int64 = (1969*365 + 1969/4 - 1969/100 + 1969/400) * 86400
	clockBaseUnix  int64 = 1767225600 // 2026-01-01T00:00:00Z
	maxTimerFires        = 2000
)

type timerObj struct {
	at      int64
	ch      *chanObj
	fn      value
	native  func()
	period  int64
	stopped bool
	fired   bool
}

func (e *Engine) timeValue(ns int64) value {
	tt := e.namedType("time", "Time")
	sv := zero(tt).(structV)
	sec := clockBaseUnix + unixToInternal + ns/1e9
	sv[0] = BV(64, uint64(ns%1e9)) // wall: no monotonic reading
	sv[1] = BV(64, uint64(sec))
	return sv
}

// timeNs converts a concrete time.Time value back to virtual nanoseconds.
func (e *Engine) timeNs(v value) (int64, bool) {
	sv, ok := v.(structV)
	if !ok {
		return 0, false
	}
	w, ok1 := sv[0].(*Term)
	x, ok2 := sv[1].(*Term)
	if !ok1 || !ok2 || !w.Const || !x.Const {
		return 0, false
	}
	var sec, nsec int64
	if w.V&(1<<63) != 0 {
		sec = int64(w.V<<1>>31) + 59453308800 // wallToInternal
		nsec = int64(w.V & (1<<30 - 1))
	} else {
		sec = int64(x.V)
		nsec = int64(w.V & (1<<30 - 1))
	}
	return (sec-clockBaseUnix-unixToInternal)*1e9 + nsec, true
}

func (e *Engine) goTime(v value) (time.Time, bool) {
	ns, ok := e.timeNs(v)
	if !ok {
		return time.Time{}, false
	}
	return time.Unix(clockBaseUnix, 0).Add(time.Duration(ns)).UTC(), true
}

func (e *Engine) fromGoTime(t time.Time) value {
	return e.timeValue(t.Sub(time.Unix(clockBaseUnix, 0)).Nanoseconds())
}

// fireTimer fires the earliest pending timer; false if there is none.
func (e *Engine) fireTimer() bool {
	var best *timerObj
	for _, t := range e.timers {
		if t.stopped || t.fired {
			continue
		}
		// a ticker whose channel is full and has no waiting receiver would only drop
		// its tick: firing it changes nothing, so it does not count as progress
		if t.period > 0 && t.ch != nil && len(t.ch.buf) >= t.ch.cap && e.liveWaiter(&t.ch.recvq) == nil {
			continue
		}
		if best == nil || t.at < best.at {
			best = t
		}
	}
	if best == nil || e.timerFires >= maxTimerFires {
		return false
	}
	e.timerFires++
	if best.at > e.clock {
		e.clock = best.at
	}
	if best.period > 0 {
		best.at += best.period
	} else {
		best.fired = true
	}
	switch {
	case best.native != nil:
		best.native()
	case best.fn != nil:
		e.spawn(best.fn, nil)
	case best.ch != nil:
		if len(best.ch.buf) < best.ch.cap || e.liveWaiter(&best.ch.recvq) != nil {
			e.doSend(best.ch, e.timeValue(e.clock))
		}
	}
	return true
}

func (e *Engine) pendingTimers() bool {
	if e.timerFires >= maxTimerFires {
		return false
	}
	for _, t := range e.timers {
		if !t.stopped && !t.fired {
			return true
		}
	}
	return false
}

func (e *Engine) setupTime() {
	x := e.ext
	x["time.Now"] = func(e *Engine, fr *frame, a []value) value { return e.timeValue(e.clock) }
	x["time.Sleep"] = func(e *Engine, fr *frame, a []value) value {
		d := a[0].(*Term)
		e.slept = append(e.slept, d)
		if d.Const {
			dn := sext(d.V, 64)
			if dn > 0 {
				// the sleeper wakes through the timer queue, so timers that are due
				// earlier (context deadlines, tickers) fire first
				t := &timerObj{at: e.clock + dn, native: func() {}}
				e.timers = append(e.timers, t)
				if len(e.threads) > 1 {
					e.block(func() bool { return t.fired }, "time.Sleep")
				} else {
					for !t.fired {
						if !e.fireTimer() {
							e.end("truncated", "timer budget exhausted inside time.Sleep")
						}
					}
				}
			}
		}
		e.yield()
		return nil
	}
	x[rtPkg+".SleptCount"] = func(e *Engine, fr *frame, a []value) value { return BV(64, uint64(len(e.slept))) }
	x[rtPkg+".Slept"] = func(e *Engine, fr *frame, a []value) value {
		i := int(a[0].(*Term).V)
		if i < 0 || i >= len(e.slept) {
			return BV(64, ^uint64(0))
		}
		return e.slept[i]
	}
	x[rtPkg+".Advance"] = func(e *Engine, fr *frame, a []value) value {
		e.clock += sext(a[0].(*Term).V, 64)
		return nil
	}
	x[rtPkg+".FireTimers"] = func(e *Engine, fr *frame, a []value) value {
		n := 0
		for e.fireTimer() {
			n++
			e.yield()
		}
		return BV(64, uint64(n))
	}
	timeChan := func() *chanObj { return e.newChan(e.namedType("time", "Time"), 1) }
	x["time.After"] = func(e *Engine, fr *frame, a []value) value {
		d := int64(e.concretize(a[0].(*Term), -1<<62, 1<<62))
		ch := timeChan()
		e.timers = append(e.timers, &timerObj{at: e.clock + d, ch: ch})
		return ch
	}
	x["time.Tick"] = func(e *Engine, fr *frame, a []value) value {
		d := int64(e.concretize(a[0].(*Term), -1<<62, 1<<62))
		ch := timeChan()
		e.timers = append(e.timers, &timerObj{at: e.clock + d, ch: ch, period: d})
		return ch
	}
	mkTimer := func(typeName string, d int64, period int64, fn value) value {
		tt := e.namedType("time", typeName)
		p := new(value)
		sv := zero(tt).(structV)
		t := &timerObj{at: e.clock + d, period: period, fn: fn}
		if fn == nil {
			t.ch = timeChan()
			sv[structField(tt, "C")] = t.ch
		}
		*p = sv
		e.objs[p] = t
		e.timers = append(e.timers, t)
		return p
	}
	x["time.NewTimer"] = func(e *Engine, fr *frame, a []value) value {
		return mkTimer("Timer", int64(e.concretize(a[0].(*Term), -1<<62, 1<<62)), 0, nil)
	}
	x["time.NewTicker"] = func(e *Engine, fr *frame, a []value) value {
		d := int64(e.concretize(a[0].(*Term), -1<<62, 1<<62))
		if d <= 0 {
			e.rtPanic("non-positive interval for NewTicker")
		}
		return mkTimer("Ticker", d, d, nil)
	}
	x["time.AfterFunc"] = func(e *Engine, fr *frame, a []value) value {
		return mkTimer("Timer", int64(e.concretize(a[0].(*Term), -1<<62, 1<<62)), 0, a[1])
	}
	stop := func(e *Engine, fr *frame, a []value) value {
		t, _ := e.objs[a[0].(*value)].(*timerObj)
		if t == nil {
			return FalseT
		}
		was := !t.stopped && !t.fired
		t.stopped = true
		return BoolT(was)
	}
	x["(*time.Timer).Stop"] = stop
	x["(*time.Ticker).Stop"] = func(e *Engine, fr *frame, a []value) value { stop(e, fr, a); return nil }
	x["(*time.Timer).Reset"] = func(e *Engine, fr *frame, a []value) value {
		t, _ := e.objs[a[0].(*value)].(*timerObj)
		if t == nil {
			return FalseT
		}
		was := !t.stopped && !t.fired
		t.stopped, t.fired = false, false
		t.at = e.clock + int64(e.concretize(a[1].(*Term), -1<<62, 1<<62))
		return BoolT(was)
	}
	x["(time.Time).Format"] = func(e *Engine, fr *frame, a []value) value {
		t, ok := e.goTime(a[0])
		f, ok2 := a[1].(*bytesV).goString()
		if !ok || !ok2 {
			e.end("unsupported", "time.Format on a symbolic time")
		}
		return constStrV(t.Format(f))
	}
	x["(time.Time).String"] = func(e *Engine, fr *frame, a []value) value {
		t, ok := e.goTime(a[0])
		if !ok {
			return constStrV("<time>")
		}
		return constStrV(t.String())
	}
	x["time.Parse"] = func(e *Engine, fr *frame, a []value) value {
		f, ok := a[0].(*bytesV).goString()
		s, ok2 := a[1].(*bytesV).goString()
		if !ok || !ok2 {
			e.end("unsupported", "time.Parse of a symbolic string")
		}
		t, err := time.Parse(f, s)
		if err != nil {
			return tuple{zero(e.namedType("time", "Time")), e.newErr(err.Error())}
		}
		return tuple{e.fromGoTime(t), e.errNil()}
	}
	// Sub on instants without a monotonic reading and with concrete nanosecond
	// parts: (secA-secB)*1e9 + (nsecA-nsecB), seconds possibly symbolic. The
	// saturation of the real Sub at +-292 years is outside the model.
	simpleSub := func(e *Engine, t, u value) (*Term, bool) {
		ts, ok1 := t.(structV)
		us, ok2 := u.(structV)
		if !ok1 || !ok2 {
			return nil, false
		}
		tw, tx := ts[0].(*Term), ts[1].(*Term)
		uw, ux := us[0].(*Term), us[1].(*Term)
		if !tw.Const || !uw.Const || tw.V&(1<<63) != 0 || uw.V&(1<<63) != 0 {
			return nil, false
		}
		dn := int64(tw.V&(1<<30-1)) - int64(uw.V&(1<<30-1))
		return Add(Mul(Sub(tx, ux), BV(64, 1000000000)), BV(64, uint64(dn))), true
	}
	x["(time.Time).Sub"] = func(e *Engine, fr *frame, a []value) value {
		if d, ok := simpleSub(e, a[0], a[1]); ok {
			return d
		}
		e.end("unsupported", "time.Sub on instants with symbolic nanoseconds or monotonic readings")
		return nil
	}
	x["time.Since"] = func(e *Engine, fr *frame, a []value) value {
		if ns, ok := e.timeNs(a[0]); ok {
			return BV(64, uint64(e.clock-ns))
		}
		if d, ok := simpleSub(e, e.timeValue(e.clock), a[0]); ok {
			return d
		}
		e.end("unsupported", "time.Since on an instant with symbolic nanoseconds")
		return nil
	}
}

// ---------------------------------------------------------------------------
// sync/atomic, sync.Map, sync.RWMutex, sync.Pool

func (e *Engine) setupAtomic() {
	x := e.ext
	for _, ty := range []string{"Int32", "Int64", "Uint32", "Uint64", "Uintptr"} {
		x["sync/atomic.Add"+ty] = func(e *Engine, fr *frame, a []value) value {
			e.yield()
			p := a[0]
			e.hbAcquire(p)
			v := Add(e.atomicLoad(p).(*Term), a[1].(*Term))
			e.atomicStore(p, v)
			e.hbRelease(p)
			return v
		}
		x["sync/atomic.Load"+ty] = func(e *Engine, fr *frame, a []value) value {
			e.yield()
			e.hbAcquire(a[0])
			return e.atomicLoad(a[0])
		}
		x["sync/atomic.Store"+ty] = func(e *Engine, fr *frame, a []value) value {
			e.yield()
			e.atomicStore(a[0], a[1])
			e.hbRelease(a[0])
			return nil
		}
		x["sync/atomic.Swap"+ty] = func(e *Engine, fr *frame, a []value) value {
			e.yield()
			e.hbAcquire(a[0])
			old := e.atomicLoad(a[0])
			e.atomicStore(a[0], a[1])
			e.hbRelease(a[0])
			return old
		}
		x["sync/atomic.CompareAndSwap"+ty] = func(e *Engine, fr *frame, a []value) value {
			e.yield()
			e.hbAcquire(a[0])
			if e.decide(Eq(e.atomicLoad(a[0]).(*Term), a[1].(*Term))) {
				e.atomicStore(a[0], a[2])
				e.hbRelease(a[0])
				return TrueT
			}
			return FalseT
		}
	}
	x["sync/atomic.LoadPointer"] = func(e *Engine, fr *frame, a []value) value { e.yield(); e.hbAcquire(a[0]); return e.atomicLoad(a[0]) }
	x["sync/atomic.StorePointer"] = func(e *Engine, fr *frame, a []value) value {
		e.yield()
		e.atomicStore(a[0], a[1])
		e.hbRelease(a[0])
		return nil
	}
	x["sync/atomic.CompareAndSwapPointer"] = func(e *Engine, fr *frame, a []value) value {
		e.yield()
		e.hbAcquire(a[0])
		if e.decide(e.eq(e.atomicLoad(a[0]), a[1])) {
			e.atomicStore(a[0], a[2])
			e.hbRelease(a[0])
			return TrueT
		}
		return FalseT
	}
	// atomic.Value
	x["(*sync/atomic.Value).Load"] = func(e *Engine, fr *frame, a []value) value {
		e.yield()
		e.hbAcquire(a[0])
		if v, ok := e.objs[a[0].(*value)].(iface); ok {
			return v
		}
		return iface{}
	}
	x["(*sync/atomic.Value).Store"] = func(e *Engine, fr *frame, a []value) value {
		e.yield()
		e.objs[a[0].(*value)] = a[1].(iface)
		e.hbRelease(a[0])
		return nil
	}

	// sync.Map
	smap := func(e *Engine, v value) *mapV {
		p := v.(*value)
		m, ok := e.objs[p].(*mapV)
		if !ok {
			m = &mapV{}
			e.objs[p] = m
		}
		return m
	}
	x["(*sync.Map).Load"] = func(e *Engine, fr *frame, a []value) value {
		e.yield()
		m := smap(e, a[0])
		e.hbAcquire(m)
		v, ok, _ := e.smLookup(m, a[1])
		if v == nil {
			return tuple{iface{}, FalseT}
		}
		return tuple{v, ok}
	}
	x["(*sync.Map).Store"] = func(e *Engine, fr *frame, a []value) value {
		e.yield()
		m := smap(e, a[0])
		_, _, i := e.smLookup(m, a[1])
		if i >= 0 {
			m.vals[i] = a[2]
		} else {
			m.keys = append(m.keys, a[1])
			m.vals = append(m.vals, a[2])
		}
		e.hbRelease(m)
		return nil
	}
	x["(*sync.Map).LoadOrStore"] = func(e *Engine, fr *frame, a []value) value {
		e.yield()
		m := smap(e, a[0])
		e.hbAcquire(m)
		v, _, i := e.smLookup(m, a[1])
		if i >= 0 {
			return tuple{v, TrueT}
		}
		m.keys = append(m.keys, a[1])
		m.vals = append(m.vals, a[2])
		e.hbRelease(m)
		return tuple{a[2], FalseT}
	}
	del := func(e *Engine, fr *frame, a []value) value {
		e.yield()
		m := smap(e, a[0])
		e.hbAcquire(m)
		v, _, i := e.smLookup(m, a[1])
		if i < 0 {
			return tuple{iface{}, FalseT}
		}
		for len(m.dead) < len(m.keys) {
			m.dead = append(m.dead, false)
		}
		m.dead[i] = true
		e.hbRelease(m)
		return tuple{v, TrueT}
	}
	x["(*sync.Map).LoadAndDelete"] = del
	x["(*sync.Map).Delete"] = func(e *Engine, fr *frame, a []value) value { del(e, fr, a); return nil }
	x["(*sync.Map).Range"] = func(e *Engine, fr *frame, a []value) value {
		e.yield()
		m := smap(e, a[0])
		e.hbAcquire(m)
		n := len(m.keys)
		for i := 0; i < n; i++ {
			if m.isDead(i) {
				continue
			}
			r := e.callAny(nil, a[1], []value{m.keys[i], m.vals[i]}, 0)
			if !e.decide(r.(*Term)) {
				break
			}
		}
		return nil
	}

	// sync.RWMutex
	type rwState struct {
		writer  bool
		readers int
	}
	rw := func(e *Engine, v value) *rwState {
		p := v.(*value)
		s, ok := e.objs[p].(*rwState)
		if !ok {
			s = &rwState{}
			e.objs[p] = s
		}
		return s
	}
	x["(*sync.RWMutex).Lock"] = func(e *Engine, fr *frame, a []value) value {
		e.yield()
		s := rw(e, a[0])
		if s.writer || s.readers > 0 {
			e.block(func() bool { return !s.writer && s.readers == 0 }, "RWMutex.Lock")
		}
		s.writer = true
		e.hbAcquire(s)
		return nil
	}
	x["(*sync.RWMutex).Unlock"] = func(e *Engine, fr *frame, a []value) value {
		s := rw(e, a[0])
		if !s.writer {
			e.rtPanicT("sync: Unlock of unlocked RWMutex")
		}
		s.writer = false
		e.hbRelease(s)
		e.yield()
		return nil
	}
	x["(*sync.RWMutex).RLock"] = func(e *Engine, fr *frame, a []value) value {
		e.yield()
		s := rw(e, a[0])
		if s.writer {
			e.block(func() bool { return !s.writer }, "RWMutex.RLock")
		}
		s.readers++
		e.hbAcquire(s)
		return nil
	}
	x["(*sync.RWMutex).RUnlock"] = func(e *Engine, fr *frame, a []value) value {
		s := rw(e, a[0])
		if s.readers <= 0 {
			e.rtPanicT("sync: RUnlock of unlocked RWMutex")
		}
		s.readers--
		e.hbRelease(s)
		e.yield()
		return nil
	}

	// sync.Pool: LIFO reuse (the most adversarial legal behaviour for aliasing bugs)
	x["(*sync.Pool).Get"] = func(e *Engine, fr *frame, a []value) value {
		e.yield()
		p := a[0].(*value)
		items, _ := e.objs[p].([]value)
		if len(items) > 0 {
			v := items[len(items)-1]
			e.objs[p] = items[:len(items)-1]
			e.hbAcquire(p)
			return v
		}
		newFn := (*p).(structV)[structField(e.namedType("sync", "Pool"), "New")]
		if newFn == nil {
			return iface{}
		}
		return e.callAny(nil, newFn, nil, 0)
	}
	x["(*sync.Pool).Put"] = func(e *Engine, fr *frame, a []value) value {
		e.yield()
		p := a[0].(*value)
		items, _ := e.objs[p].([]value)
		e.objs[p] = append(items, a[1])
		e.hbRelease(p)
		return nil
	}
}

// atomic accesses are synchronisation operations, not plain memory accesses:
// they bypass the race monitor's access log.
func (e *Engine) atomicLoad(p value) value {
	pp, ok := p.(*value)
	if !ok || pp == nil {
		e.rtPanic("nil pointer dereference")
	}
	return copyVal(*pp)
}

func (e *Engine) atomicStore(p, v value) {
	pp, ok := p.(*value)
	if !ok || pp == nil {
		e.rtPanic("nil pointer dereference")
	}
	assignInPlace(pp, v)
}

// smLookup: sync.Map lookup by interface key.
func (e *Engine) smLookup(m *mapV, k value) (value, *Term, int) {
	for i, mk := range m.keys {
		if m.isDead(i) {
			continue
		}
		if e.decide(e.eq(mk, k)) {
			return m.vals[i], TrueT, i
		}
	}
	return nil, FalseT, -1
}

var _ = fmt.Sprint
var _ = sort.Strings

// flag: package-level flag variables are plain cells holding their default
// value (flag.Parse is never run; harnesses assign the cells directly).
func (e *Engine) setupFlag() {
	mk := func(e *Engine, fr *frame, a []value) value {
		p := new(value)
		*p = copyVal(a[1])
		return p
	}
	for _, n := range []string{"String", "Bool", "Int", "Int64", "Uint", "Uint64", "Float64", "Duration"} {
		e.ext["flag."+n] = mk
	}
	e.ext["flag.Parse"] = func(e *Engine, fr *frame, a []value) value { return nil }
}

// sort.Slice / sort.SliceStable use reflection; modelled as an insertion sort
// that calls the real less function (stable, so it serves both).
func (e *Engine) setupSort() {
	sortSlice := func(e *Engine, fr *frame, a []value) value {
		sl, ok := a[0].(iface).v.(*sliceV)
		if !ok || sl == nil || sl.len < 2 {
			return nil
		}
		arr := *sl.arr
		less := func(i, j int) bool {
			r := e.callAny(nil, a[1], []value{BV(64, uint64(i)), BV(64, uint64(j))}, 0)
			return e.decide(r.(*Term))
		}
		for i := 1; i < sl.len; i++ {
			for j := i; j > 0 && less(j, j-1); j-- {
				arr[sl.off+j], arr[sl.off+j-1] = arr[sl.off+j-1], arr[sl.off+j]
			}
		}
		return nil
	}
	// M-uuid: uuid.New returns a fresh value distinct from all earlier ones
	e.ext["github.com/google/uuid.New"] = func(e *Engine, fr *frame, a []value) value {
		n, _ := e.objs["uuidseq"].(int)
		n++
		e.objs["uuidseq"] = n
		out := &byteArr{b: make([]*Term, 16)}
		for i := range out.b {
			out.b[i] = BV(8, 0)
		}
		out.b[0] = BV(8, 0x5e)
		out.b[6] = BV(8, 0x40)
		out.b[8] = BV(8, 0x80)
		out.b[14] = BV(8, uint64(n>>8))
		out.b[15] = BV(8, uint64(n))
		return byteArrayV{out}
	}
	e.ext["sort.Slice"] = sortSlice
	e.ext["sort.SliceStable"] = sortSlice
}

// M-tmpl: text/template for the repository's fixed templates. Parse stores the
// text; Execute writes the text with every {{.Field}} replaced by the named
// field of the data struct (text/template does no escaping). Anything else in a
// template (pipelines, conditionals) is unsupported.
type tmplState struct {
	name string
	text string
	ok   bool
}

func (e *Engine) setupTemplate() {
	x := e.ext
	// unicode case mapping and classes: real tables for concrete runes; a symbolic
	// non-ASCII rune is outside the supported subset
	uni := func(name string, f func(r rune) uint64, w int) {
		x["unicode."+name] = func(e *Engine, fr *frame, a []value) value {
			t := a[0].(*Term)
			if !t.Const {
				e.end("unsupported", "unicode."+name+" of a symbolic non-ASCII rune")
			}
			return BV(w, f(rune(sext(t.V, 32))))
		}
	}
	b2u := func(b bool) uint64 {
		if b {
			return 1
		}
		return 0
	}
	uni("ToLower", func(r rune) uint64 { return uint64(uint32(unicode.ToLower(r))) }, 32)
	uni("ToUpper", func(r rune) uint64 { return uint64(uint32(unicode.ToUpper(r))) }, 32)
	uni("ToTitle", func(r rune) uint64 { return uint64(uint32(unicode.ToTitle(r))) }, 32)
	for name, f := range map[string]func(rune) bool{"IsSpace": unicode.IsSpace, "IsLetter": unicode.IsLetter, "IsDigit": unicode.IsDigit, "IsUpper": unicode.IsUpper, "IsLower": unicode.IsLower, "IsPrint": unicode.IsPrint, "IsPunct": unicode.IsPunct, "IsControl": unicode.IsControl} {
		f := f
		x["unicode."+name] = func(e *Engine, fr *frame, a []value) value {
			t := a[0].(*Term)
			if !t.Const {
				e.end("unsupported", "unicode class test of a symbolic non-ASCII rune")
			}
			return BoolT(f(rune(sext(t.V, 32))) && b2u(true) == 1)
		}
	}
	tt := func() types.Type { return e.namedType("text/template", "Template") }
	x["text/template.New"] = func(e *Engine, fr *frame, a []value) value {
		p := new(value)
		*p = zero(tt())
		e.objs[p] = &tmplState{name: mustStr(a[0])}
		return p
	}
	x["(*text/template.Template).Parse"] = func(e *Engine, fr *frame, a []value) value {
		p := a[0].(*value)
		st, _ := e.objs[p].(*tmplState)
		if st == nil {
			e.end("unsupported", "M-tmpl: Parse on an unknown template")
		}
		st.text, st.ok = mustStr(a[1]), true
		return tuple{p, e.errNil()}
	}
	x["text/template.Must"] = func(e *Engine, fr *frame, a []value) value {
		if a[1].(iface).t != nil {
			e.rtPanic("template.Must: parse error")
		}
		return a[0]
	}
	x["(*text/template.Template).Execute"] = func(e *Engine, fr *frame, a []value) value {
		p, _ := a[0].(*value)
		st, _ := e.objs[p].(*tmplState)
		if st == nil || !st.ok {
			e.end("unsupported", "M-tmpl: Execute on a template that was not parsed by the model")
		}
		data := a[2].(iface)
		var sv structV
		var stt *types.Struct
		if pt, ok := data.t.Underlying().(*types.Pointer); ok {
			stt, _ = pt.Elem().Underlying().(*types.Struct)
			if dp, ok := data.v.(*value); ok && dp != nil {
				sv, _ = (*dp).(structV)
			}
		} else if s2, ok := data.t.Underlying().(*types.Struct); ok {
			stt = s2
			sv, _ = data.v.(structV)
		}
		if stt == nil || sv == nil {
			e.end("unsupported", "M-tmpl: data is not a struct")
		}
		out := constStrV("")
		text := st.text
		for {
			i := strings.Index(text, "{{")
			if i < 0 {
				out = e.concat(out, constStrV(text))
				break
			}
			j := strings.Index(text[i:], "}}")
			if j < 0 {
				e.end("unsupported", "M-tmpl: unterminated action")
			}
			out = e.concat(out, constStrV(text[:i]))
			action := strings.TrimSpace(text[i+2 : i+j])
			if !strings.HasPrefix(action, ".") || strings.ContainsAny(action[1:], " .|()") {
				e.end("unsupported", "M-tmpl: action "+action)
			}
			found := false
			for k := 0; k < stt.NumFields(); k++ {
				if stt.Field(k).Name() == action[1:] {
					fv, ok := sv[k].(*bytesV)
					if !ok {
						e.end("unsupported", "M-tmpl: non-string field "+action)
					}
					out = e.concat(out, fv)
					found = true
				}
			}
			if !found {
				return e.newErr("template: can't evaluate field " + action[1:])
			}
			text = text[i+j+2:]
		}
		r := e.callMethod(a[1].(iface), "Write", e.snapshot(out)).(tuple)
		return r[1]
	}
}
