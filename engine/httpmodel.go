package main

// M-http-wire (spike): Response.Write / ReadResponse as a byte codec in a
// simplified length-prefixed format, with the access order of net/http's
// Response.Write (probe byte, status, trailer keys, header, body, trailer values).

import (
	"go/types"
	"sort"
)

func (e *Engine) callMethod(recv iface, name string, args ...value) value {
	if recv.t == nil {
		e.rtPanic("method call on nil interface")
	}
	ms := e.prog.MethodSets.MethodSet(recv.t)
	for i := 0; i < ms.Len(); i++ {
		if ms.At(i).Obj().Name() == name {
			fn := e.prog.MethodValue(ms.At(i))
			return e.callFn(fn, append([]value{recv.v}, args...))
		}
	}
	e.end("unsupported", "no method "+name)
	return nil
}

func (e *Engine) errNil() value { return zero(types.Universe.Lookup("error").Type()) }

func concreteBytes(bs []byte) *bytesV {
	a := &byteArr{b: make([]*Term, len(bs))}
	for i, c := range bs {
		a.b[i] = BV(8, uint64(c))
	}
	return &bytesV{arr: a, n: BV(64, uint64(len(bs))), cap: len(bs)}
}

// writeTo sends one byte string to an io.Writer value.
func (e *Engine) writeTo(w iface, b *bytesV) bool {
	r := e.callMethod(w, "Write", b).(tuple)
	return r[1].(iface).t == nil
}

func lenByte(n *Term) *bytesV {
	a := &byteArr{b: []*Term{Trunc(n, 8)}}
	return &bytesV{arr: a, n: BV(64, 1), cap: 1}
}

func sortedKeys(e *Engine, m *mapV) []int {
	var idx []int
	if m == nil {
		return idx
	}
	for i := range m.keys {
		if !m.isDead(i) {
			idx = append(idx, i)
		}
	}
	// deterministic order: by concrete key where possible, else insertion order
	sort.SliceStable(idx, func(a, b int) bool {
		sa, oka := m.keys[idx[a]].(*bytesV).goString()
		sb, okb := m.keys[idx[b]].(*bytesV).goString()
		return oka && okb && sa < sb
	})
	return idx
}

func (e *Engine) writeHeaderMap(w iface, m *mapV) bool {
	idx := sortedKeys(e, m)
	if !e.writeTo(w, concreteBytes([]byte{byte(len(idx))})) {
		return false
	}
	for _, i := range idx {
		k := m.keys[i].(*bytesV)
		vals := m.vals[i].(*sliceV)
		if !e.writeTo(w, e.concat(lenByte(k.n), k)) {
			return false
		}
		if !e.writeTo(w, concreteBytes([]byte{byte(vals.len)})) {
			return false
		}
		for j := 0; j < vals.len; j++ {
			v := (*vals.arr)[vals.off+j].(*bytesV)
			if !e.writeTo(w, e.concat(lenByte(v.n), v)) {
				return false
			}
		}
	}
	return true
}

func (e *Engine) setupHTTPModel() {
	x := e.ext
	respT := func() types.Type { return e.namedType("net/http", "Response") }

	x["(*net/http.Response).Write"] = func(e *Engine, fr *frame, a []value) value {
		rp := a[0].(*value)
		resp := (*rp).(structV)
		rt := respT()
		w := a[1].(iface)
		errT := types.Universe.Lookup("error").Type()
		fail := func() value {
			return e.callFn(e.fn("errors", "New"), []value{constStrV("M-http-wire: write failed")})
		}
		body := resp[structField(rt, "Body")].(iface)
		// (1) probe the body with a one-byte read
		var first *bytesV
		eof := false
		if body.t != nil {
			buf := concreteBytes([]byte{0})
			r := e.callMethod(body, "Read", buf).(tuple)
			n := r[0].(*Term)
			if r[1].(iface).t != nil {
				eof = true // EOF or error: treat as end of body (errors other than EOF are not modelled)
			}
			if e.decide(Eq(n, BV(64, 1))) {
				first = &bytesV{arr: buf.arr, n: BV(64, 1), cap: 1}
			}
		} else {
			eof = true
		}
		// (2) status
		st := resp[structField(rt, "StatusCode")].(*Term)
		stb := &bytesV{arr: &byteArr{b: []*Term{Trunc(Lshr(st, BV(64, 8)), 8), Trunc(st, 8)}}, n: BV(64, 2), cap: 2}
		if !e.writeTo(w, stb) {
			return fail()
		}
		// (3) declared trailer keys (map iteration = read access)
		tr, _ := resp[structField(rt, "Trailer")].(*mapV)
		if tr != nil {
			e.hbAccess(tr, false, "net/http.(*transferWriter).writeHeader [Trailer keys]")
		}
		tidx := sortedKeys(e, tr)
		if !e.writeTo(w, concreteBytes([]byte{byte(len(tidx))})) {
			return fail()
		}
		for _, i := range tidx {
			k := tr.keys[i].(*bytesV)
			if !e.writeTo(w, e.concat(lenByte(k.n), k)) {
				return fail()
			}
		}
		// (4) header
		hd, _ := resp[structField(rt, "Header")].(*mapV)
		if hd != nil {
			e.hbAccess(hd, false, "net/http.Header.WriteSubset")
		}
		if !e.writeHeaderMap(w, hd) {
			return fail()
		}
		// (5) body chunks, each written through as soon as it is read
		if first != nil {
			if !e.writeTo(w, e.concat(lenByte(first.n), first)) {
				return fail()
			}
		}
		for !eof {
			buf := concreteBytes(make([]byte, 8))
			r := e.callMethod(body, "Read", buf).(tuple)
			n := r[0].(*Term)
			if r[1].(iface).t != nil {
				eof = true
			}
			if e.decide(Ult(BV(64, 0), n)) {
				chunk := &bytesV{arr: buf.arr, n: n, cap: 8}
				if !e.writeTo(w, e.concat(lenByte(n), chunk)) {
					return fail()
				}
			}
		}
		if !e.writeTo(w, concreteBytes([]byte{0})) {
			return fail()
		}
		// (6) trailer values
		if tr != nil {
			e.hbAccess(tr, false, "net/http.(*transferWriter).writeBody [Trailer values]")
		}
		if !e.writeHeaderMap(w, tr) {
			return fail()
		}
		return zero(errT)
	}

	x["net/http.ReadResponse"] = func(e *Engine, fr *frame, a []value) value {
		rd := e.readerArg(a[0])
		errT := types.Universe.Lookup("error").Type()
		bad := func(msg string) value {
			return tuple{(*value)(nil), e.callFn(e.fn("errors", "New"), []value{constStrV("M-http-wire: " + msg)})}
		}
		// pull n bytes (n concrete) from the reader
		var pending []*Term
		ended := false
		fill := func(n int) bool {
			for len(pending) < n && !ended {
				buf := concreteBytes(make([]byte, 64))
				r := e.callMethod(rd, "Read", buf).(tuple)
				k := e.concretize(r[0].(*Term), 0, 64)
				pending = append(pending, buf.arr.b[:k]...)
				if r[1].(iface).t != nil {
					ended = true
				}
			}
			return len(pending) >= n
		}
		take := func(n int) ([]*Term, bool) {
			if !fill(n) {
				return nil, false
			}
			out := pending[:n]
			pending = pending[n:]
			return out, true
		}
		takeLen := func() (int, bool) {
			b, ok := take(1)
			if !ok {
				return 0, false
			}
			return e.concretize(ZExt(b[0], 64), 0, 255), true
		}
		takeStr := func() (*bytesV, bool) {
			n, ok := takeLen()
			if !ok {
				return nil, false
			}
			b, ok := take(n)
			if !ok {
				return nil, false
			}
			return &bytesV{arr: &byteArr{b: append([]*Term{}, b...)}, n: BV(64, uint64(n)), cap: n}, true
		}
		readMap := func() (*mapV, bool) {
			m := &mapV{}
			n, ok := takeLen()
			if !ok {
				return nil, false
			}
			for i := 0; i < n; i++ {
				k, ok := takeStr()
				if !ok {
					return nil, false
				}
				nv, ok := takeLen()
				if !ok {
					return nil, false
				}
				vals := make([]value, nv)
				for j := range vals {
					v, ok := takeStr()
					if !ok {
						return nil, false
					}
					vals[j] = v
				}
				m.keys = append(m.keys, k)
				m.vals = append(m.vals, &sliceV{arr: &vals, len: nv, cap: nv})
			}
			return m, true
		}
		sb, ok := take(2)
		if !ok {
			return bad("short status")
		}
		status := BOr(Shl(ZExt(sb[0], 64), BV(64, 8)), ZExt(sb[1], 64))
		nd, ok := takeLen()
		if !ok {
			return bad("short trailer declaration")
		}
		trailer := &mapV{}
		for i := 0; i < nd; i++ {
			k, ok := takeStr()
			if !ok {
				return bad("short trailer name")
			}
			empty := []value{}
			trailer.keys = append(trailer.keys, k)
			trailer.vals = append(trailer.vals, &sliceV{arr: &empty, isNil: true})
		}
		header, ok := readMap()
		if !ok {
			return bad("short header")
		}
		var body []*Term
		for {
			n, ok := takeLen()
			if !ok {
				return bad("short body")
			}
			if n == 0 {
				break
			}
			b, ok := take(n)
			if !ok {
				return bad("short chunk")
			}
			body = append(body, b...)
		}
		tvals, ok := readMap()
		if !ok {
			return bad("short trailers")
		}
		rt := respT()
		resp := zero(rt).(structV)
		resp[structField(rt, "StatusCode")] = status
		resp[structField(rt, "Header")] = header
		resp[structField(rt, "Trailer")] = trailer
		bb := &bytesV{arr: &byteArr{b: body}, n: BV(64, uint64(len(body))), cap: len(body)}
		rdr := e.callFn(e.fn("bytes", "NewReader"), []value{bb})
		// trailer values (and unannounced trailers) appear in resp.Trailer when the
		// body reports EOF, not before - as with net/http
		publish := &nativeFn{name: "M-http-wire: publish trailers", f: func(e *Engine, args []value) value {
			for i, k := range tvals.keys {
				_, _, j := e.mapLookup(trailer, k)
				if j >= 0 {
					trailer.vals[j] = tvals.vals[i]
				} else {
					trailer.keys = append(trailer.keys, k)
					trailer.vals = append(trailer.vals, tvals.vals[i])
				}
			}
			return nil
		}}
		ebT := e.namedType(rtPkg, "EOFBody")
		eb := zero(ebT).(structV)
		eb[structField(ebT, "R")] = iface{t: types.NewPointer(e.namedType("bytes", "Reader")), v: rdr}
		eb[structField(ebT, "AtEOF")] = publish
		ebp := new(value)
		*ebp = eb
		resp[structField(rt, "Body")] = iface{t: types.NewPointer(ebT), v: ebp}
		p := new(value)
		*p = resp
		return tuple{p, zero(errT)}
	}
}

type readerBox struct{ r iface }

// ---------------------------------------------------------------------------
// M-http-wire, request side: (*http.Request).Write and http.ReadRequest as a
// codec over the same length-prefixed byte format. Write reproduces the
// documented behaviour of net/http's client-side serialiser: request line from
// Method and URL.RequestURI(), Host from r.Host or URL.Host, a default
// User-Agent when the header has none, the header fields except Host,
// User-Agent, Content-Length, Transfer-Encoding and Trailer, then the body read
// until EOF. ReadRequest gives back Method, RequestURI, URL (parsed with the
// real url.ParseRequestURI), Host, Header, ContentLength and Body.

func (e *Engine) writeStr(w iface, s *bytesV) bool { return e.writeTo(w, e.concat(lenByte(s.n), s)) }

func (e *Engine) setupHTTPRequestModel() {
	x := e.ext
	reqT := func() types.Type { return e.namedType("net/http", "Request") }
	excluded := map[string]bool{"Host": true, "User-Agent": true, "Content-Length": true, "Transfer-Encoding": true, "Trailer": true}
	x["(*net/http.Request).Write"] = func(e *Engine, fr *frame, a []value) value {
		rp := a[0].(*value)
		if rp == nil {
			e.rtPanic("nil pointer dereference")
		}
		req := (*rp).(structV)
		rt := reqT()
		w := a[1].(iface)
		fail := func() value { return e.newErr("M-http-wire: write failed") }
		method := req[structField(rt, "Method")].(*bytesV)
		if l, ok := method.concreteLen(); ok && l == 0 {
			method = constStrV("GET")
		}
		up, _ := req[structField(rt, "URL")].(*value)
		if up == nil {
			return e.newErr("http: nil Request.URL")
		}
		uri := e.callFn(e.prog.LookupMethod(types.NewPointer(e.namedType("net/url", "URL")), nil, "RequestURI"), []value{up}).(*bytesV)
		host := req[structField(rt, "Host")].(*bytesV)
		if l, ok := host.concreteLen(); ok && l == 0 {
			host = (*up).(structV)[structField(e.namedType("net/url", "URL"), "Host")].(*bytesV)
		}
		for _, s := range []*bytesV{method, uri, host} {
			if !e.writeStr(w, s) {
				return fail()
			}
		}
		// header: default User-Agent, then the non-excluded fields
		hd, _ := req[structField(rt, "Header")].(*mapV)
		out := &mapV{}
		ua := constStrV("Go-http-client/1.1")
		uaVals := []value{ua}
		haveUA := false
		if hd != nil {
			e.hbAccess(hd, false, "net/http.(*Request).write [Header]")
			for i, k := range hd.keys {
				if hd.isDead(i) {
					continue
				}
				ks, ok := k.(*bytesV).goString()
				if !ok {
					// a symbolic field name: which excluded name it equals (if any) is decided by forking
					for name := range excluded {
						if e.decide(e.strEq(k.(*bytesV), constStrV(name))) {
							ks, ok = name, true
							break
						}
					}
				}
				if ok && ks == "User-Agent" {
					haveUA = true
					vals := hd.vals[i].(*sliceV)
					if vals.len > 0 {
						first := (*vals.arr)[vals.off].(*bytesV)
						if !e.decide(Eq(first.n, BV(64, 0))) {
							uaVals = []value{first}
						} else {
							uaVals = nil
						}
					}
					continue
				}
				if ok && excluded[ks] {
					continue
				}
				out.keys = append(out.keys, k)
				out.vals = append(out.vals, hd.vals[i])
			}
		}
		_ = haveUA
		if uaVals != nil {
			out.keys = append(out.keys, constStrV("User-Agent"))
			out.vals = append(out.vals, &sliceV{arr: &uaVals, len: 1, cap: 1})
		}
		if !e.writeHeaderMap(w, out) {
			return fail()
		}
		// body until EOF
		body := req[structField(rt, "Body")].(iface)
		if body.t != nil {
			for {
				buf := concreteBytes(make([]byte, 8))
				r := e.callMethod(body, "Read", buf).(tuple)
				n := r[0].(*Term)
				if e.decide(Ult(BV(64, 0), n)) {
					chunk := &bytesV{arr: buf.arr, n: n, cap: 8}
					if !e.writeTo(w, e.concat(lenByte(n), chunk)) {
						return fail()
					}
				}
				if r[1].(iface).t != nil {
					break
				}
			}
		}
		if !e.writeTo(w, concreteBytes([]byte{0})) {
			return fail()
		}
		return e.errNil()
	}

	x["net/http.ReadRequest"] = func(e *Engine, fr *frame, a []value) value {
		rd := e.readerArg(a[0])
		bad := func(msg string) value { return tuple{(*value)(nil), e.newErr("M-http-wire: " + msg)} }
		p := &wireReader{e: e, rd: rd, exact: true}
		method, ok := p.takeStr()
		if !ok {
			return bad("short method")
		}
		uri, ok := p.takeStr()
		if !ok {
			return bad("short request target")
		}
		host, ok := p.takeStr()
		if !ok {
			return bad("short host")
		}
		header, ok := p.readMap()
		if !ok {
			return bad("short header")
		}
		pu := e.callFn(e.fn("net/url", "ParseRequestURI"), []value{uri}).(tuple)
		if pu[1].(iface).t != nil {
			return tuple{(*value)(nil), pu[1]}
		}
		rt := reqT()
		req := zero(rt).(structV)
		req[structField(rt, "Method")] = method
		req[structField(rt, "URL")] = pu[0]
		req[structField(rt, "RequestURI")] = uri
		req[structField(rt, "Proto")] = constStrV("HTTP/1.1")
		req[structField(rt, "ProtoMajor")] = BV(64, 1)
		req[structField(rt, "ProtoMinor")] = BV(64, 1)
		req[structField(rt, "Header")] = header
		req[structField(rt, "Host")] = host
		// the body is decoded lazily from the same reader
		req[structField(rt, "ContentLength")] = BV(64, ^uint64(0))
		wbT := e.namedType(rtPkg, "WireBody")
		wb := zero(wbT).(structV)
		wb[structField(wbT, "R")] = rd
		wbp := new(value)
		*wbp = wb
		req[structField(rt, "Body")] = iface{t: types.NewPointer(wbT), v: wbp}
		rp := new(value)
		*rp = req
		return tuple{rp, e.errNil()}
	}
}

// wireReader pulls the codec's fields from an io.Reader.
type wireReader struct {
	e       *Engine
	rd      iface
	pending []*Term
	ended   bool
	exact   bool
}

func (p *wireReader) fill(n int) bool {
	e := p.e
	for len(p.pending) < n && !p.ended {
		want := 64
		if p.exact {
			want = n - len(p.pending) // never read past what was asked for
		}
		buf := concreteBytes(make([]byte, want))
		r := e.callMethod(p.rd, "Read", buf).(tuple)
		k := e.concretize(r[0].(*Term), 0, want)
		p.pending = append(p.pending, buf.arr.b[:k]...)
		if r[1].(iface).t != nil {
			p.ended = true
		}
	}
	return len(p.pending) >= n
}

func (p *wireReader) take(n int) ([]*Term, bool) {
	if !p.fill(n) {
		return nil, false
	}
	out := p.pending[:n]
	p.pending = p.pending[n:]
	return out, true
}

func (p *wireReader) takeLen() (int, bool) {
	b, ok := p.take(1)
	if !ok {
		return 0, false
	}
	return p.e.concretize(ZExt(b[0], 64), 0, 255), true
}

func (p *wireReader) takeStr() (*bytesV, bool) {
	n, ok := p.takeLen()
	if !ok {
		return nil, false
	}
	b, ok := p.take(n)
	if !ok {
		return nil, false
	}
	return &bytesV{arr: &byteArr{b: append([]*Term{}, b...)}, n: BV(64, uint64(n)), cap: n}, true
}

func (p *wireReader) readMap() (*mapV, bool) {
	m := &mapV{}
	n, ok := p.takeLen()
	if !ok {
		return nil, false
	}
	for i := 0; i < n; i++ {
		k, ok := p.takeStr()
		if !ok {
			return nil, false
		}
		nv, ok := p.takeLen()
		if !ok {
			return nil, false
		}
		vals := make([]value, nv)
		for j := range vals {
			v, ok := p.takeStr()
			if !ok {
				return nil, false
			}
			vals[j] = v
		}
		m.keys = append(m.keys, k)
		m.vals = append(m.vals, &sliceV{arr: &vals, len: nv, cap: nv})
	}
	return m, true
}

// readerArg: the *bufio.Reader handed to ReadRequest / ReadResponse, as an
// io.Reader (the real bufio.Reader code is interpreted).
func (e *Engine) readerArg(v value) iface {
	if rb, ok := v.(*readerBox); ok {
		return rb.r
	}
	return iface{t: types.NewPointer(e.namedType("bufio", "Reader")), v: v}
}
