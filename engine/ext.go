package main

import (
	"crypto/sha256"
	"fmt"
	"go/types"
	"math"
	"os"
	"strings"

	"golang.org/x/tools/go/ssa"
)

const rtPkg = "github.com/google/inverting-proxy/zzverifrt"

func (e *Engine) fn(pkgPath, name string) *ssa.Function {
	for _, p := range e.prog.AllPackages() {
		if p.Pkg.Path() == pkgPath {
			if f := p.Func(name); f != nil {
				return f
			}
		}
	}
	panic("no function " + pkgPath + "." + name)
}

func structField(t types.Type, name string) int {
	st := t.Underlying().(*types.Struct)
	for i := 0; i < st.NumFields(); i++ {
		if st.Field(i).Name() == name {
			return i
		}
	}
	panic("no field " + name)
}

func (e *Engine) namedType(pkgPath, name string) types.Type {
	for _, p := range e.prog.AllPackages() {
		if p.Pkg.Path() == pkgPath {
			return p.Pkg.Scope().Lookup(name).Type()
		}
	}
	panic("no type " + name)
}

func sanitize(s string) string {
	var sb strings.Builder
	sb.WriteString("v_")
	for _, c := range s {
		if c >= 'a' && c <= 'z' || c >= 'A' && c <= 'Z' || c >= '0' && c <= '9' || c == '_' {
			sb.WriteRune(c)
		} else {
			sb.WriteString(fmt.Sprintf("_%02x", c))
		}
	}
	return sb.String()
}

func solverKind() string {
	if k := os.Getenv("GOSYM_SOLVER"); k != "" {
		return k
	}
	return "z3-new"
}

func toGo(v value) (interface{}, bool) {
	switch v := v.(type) {
	case *Term:
		if !v.Const {
			return nil, false
		}
		if v.S.K == 0 {
			return v.V == 1, true
		}
		return sext(v.V, v.S.W), true
	case *bytesV:
		s, ok := v.goString()
		return s, ok
	case arrayV:
		bs := make([]byte, len(v))
		for i, c := range v {
			t, ok := c.(*Term)
			if !ok || !t.Const {
				return nil, false
			}
			bs[i] = byte(t.V)
		}
		return bs, true
	}
	return nil, false
}

type onceState struct{ running, done bool }

func mustStr(v value) string {
	s, ok := v.(*bytesV).goString()
	if !ok {
		panic("expected concrete string")
	}
	return s
}

func (e *Engine) setupExt() {
	x := map[string]func(e *Engine, fr *frame, args []value) value{}
	e.ext = x
	e.setupRT()

	x["math.Log2"] = func(e *Engine, fr *frame, a []value) value {
		t := a[0].(*Term)
		if !t.Const {
			e.end("unsupported", "math.Log2 symbolic")
		}
		return FPConst(math.Log2(math.Float64frombits(t.V)))
	}
	x["math/rand.Float64"] = func(e *Engine, fr *frame, a []value) value {
		v := e.newNondet(fmt.Sprintf("rand.Float64#%d", len(e.nondets)), "float", FP64S)
		e.addAssume(And(FLe(FPConst(0), v), FLt(v, FPConst(1))))
		return v
	}
	x["(time.Duration).Nanoseconds"] = func(e *Engine, fr *frame, a []value) value { return a[0] }
	x["crypto/sha256.Sum256"] = func(e *Engine, fr *frame, a []value) value {
		s, ok := a[0].(*bytesV).goString()
		if !ok {
			e.end("unsupported", "sha256 of symbolic data")
		}
		sum := sha256.Sum256([]byte(s))
		out := &byteArr{b: make([]*Term, 32)}
		for i := range out.b {
			out.b[i] = BV(8, uint64(sum[i]))
		}
		return byteArrayV{out}
	}
	x["time.Now"] = func(e *Engine, fr *frame, a []value) value { return zero(e.namedType("time", "Time")) }
	x["(time.Time).UnixNano"] = func(e *Engine, fr *frame, a []value) value { return BV(64, 42) }
	x["time.Since"] = func(e *Engine, fr *frame, a []value) value { return BV(64, 0) }
	x["(*sync.Once).Do"] = func(e *Engine, fr *frame, a []value) value {
		p := a[0].(*value)
		st, _ := e.objs[p].(*onceState)
		if st == nil {
			st = &onceState{}
			e.objs[p] = st
			if e.onces[p] { // completed during the (snapshotted) initialiser phase
				st.done = true
			}
		}
		e.yield()
		if st.done {
			e.hbAcquire(st)
			return nil
		}
		if st.running {
			e.block(func() bool { return st.done }, "sync.Once.Do")
			e.hbAcquire(st)
			return nil
		}
		st.running = true
		e.callAny(nil, a[1], nil, 0)
		st.done = true
		e.onces[p] = true
		e.hbRelease(st)
		return nil
	}
	// byte searches are formulas over the cells, not forks: the result is an ite
	// chain over the positions (first / last match, or -1)
	matchAt := func(sv *bytesV, i int, c *Term) *Term {
		return And(Ult(BV(64, uint64(i)), sv.n), Eq(sv.arr.b[sv.off+i], c))
	}
	capOf := func(sv *bytesV) int {
		if l, ok := sv.concreteLen(); ok {
			return l
		}
		return sv.cap
	}
	indexByte := func(e *Engine, fr *frame, a []value) value {
		sv := a[0].(*bytesV)
		c := a[1].(*Term)
		res := BV(64, ^uint64(0))
		for i := capOf(sv) - 1; i >= 0; i-- {
			res = e.ite(matchAt(sv, i, c), BV(64, uint64(i)), res)
		}
		return res
	}
	lastIndexByte := func(e *Engine, fr *frame, a []value) value {
		sv := a[0].(*bytesV)
		c := a[1].(*Term)
		res := BV(64, ^uint64(0))
		for i := 0; i < capOf(sv); i++ {
			res = e.ite(matchAt(sv, i, c), BV(64, uint64(i)), res)
		}
		return res
	}
	countByte := func(e *Engine, fr *frame, a []value) value {
		sv := a[0].(*bytesV)
		c := a[1].(*Term)
		res := BV(64, 0)
		for i := 0; i < capOf(sv); i++ {
			res = Add(res, e.ite(matchAt(sv, i, c), BV(64, 1), BV(64, 0)))
		}
		return res
	}
	x["internal/bytealg.IndexByteString"] = indexByte
	x["internal/bytealg.IndexByte"] = indexByte
	x["internal/bytealg.LastIndexByteString"] = lastIndexByte
	x["internal/bytealg.LastIndexByte"] = lastIndexByte
	x["internal/bytealg.CountString"] = countByte
	x["internal/bytealg.Count"] = countByte
	x["internal/bytealg.Equal"] = func(e *Engine, fr *frame, a []value) value { return e.strEq(a[0].(*bytesV), a[1].(*bytesV)) }
	indexStr := func(e *Engine, fr *frame, a []value) value {
		sv := a[0].(*bytesV)
		sub := a[1].(*bytesV)
		m := e.concretize(sub.n, 0, sub.cap)
		for i := 0; i+m <= sv.cap; i++ {
			if !e.decide(Ule(BV(64, uint64(i+m)), sv.n)) {
				return BV(64, ^uint64(0))
			}
			w := &bytesV{arr: sv.arr, off: sv.off + i, n: BV(64, uint64(m)), cap: m}
			if e.decide(e.strEq(w, &bytesV{arr: sub.arr, off: sub.off, n: BV(64, uint64(m)), cap: m})) {
				return BV(64, uint64(i))
			}
		}
		return BV(64, ^uint64(0))
	}
	x["strings.Index"] = indexStr
	x["internal/stringslite.Index"] = indexStr
	x["internal/bytealg.IndexString"] = indexStr
	x["internal/bytealg.MakeNoZero"] = func(e *Engine, fr *frame, a []value) value {
		n := e.concretize(a[0].(*Term), 0, 1<<16)
		arr := &byteArr{b: make([]*Term, n)}
		for i := range arr.b {
			arr.b[i] = BV(8, 0)
		}
		return &bytesV{arr: arr, n: BV(64, uint64(n)), cap: n}
	}
	x["internal/godebug.New"] = func(e *Engine, fr *frame, a []value) value { return (*value)(nil) }

	// net/http models
	x["(*net/http.Client).Do"] = func(e *Engine, fr *frame, a []value) value {
		cl := (*a[0].(*value)).(structV)
		clT := e.namedType("net/http", "Client")
		tr := cl[structField(clT, "Transport")].(iface)
		rtT := e.namedType("net/http", "RoundTripper").Underlying().(*types.Interface)
		var m *types.Func
		for i := 0; i < rtT.NumMethods(); i++ {
			m = rtT.Method(i)
		}
		f := e.prog.LookupMethod(tr.t, m.Pkg(), "RoundTrip")
		return e.callFn(f, []value{tr.v, a[1]})
	}
}
