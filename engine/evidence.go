package main

import (
	"encoding/json"
	"fmt"
	"os"
	"path/filepath"
	"sort"
)

func writeEvidence(spec *Spec, tier string, seed int, results []*RunResult, wall float64, violations, knownHits, unconfirmed, inconclusive int, lines []string) error {
	level := spec.Level
	if level == "" {
		level = "model_checking"
	}
	states, transitions, validated, evals, nontrivial, finals := 0, 0, 0, 0, 0, 0
	exhaustive := len(results) > 0
	var runs []map[string]interface{}
	var samples []interface{}
	funcs := map[string]bool{}
	solverSec := map[string]float64{}
	queries := map[string]int{}
	var incomplete []string
	for _, r := range results {
		if r.Skipped != "" {
			runs = append(runs, map[string]interface{}{"run": r.Spec.Name, "skipped": r.Skipped})
			exhaustive = false
			incomplete = append(incomplete, r.Spec.Name+": skipped: "+r.Skipped)
			continue
		}
		states += r.Done
		transitions += r.Instrs
		validated += r.WitnessOK
		nontrivial += r.Nontrivial
		finals += r.Final
		for k, v := range r.Queries {
			queries[k] += v
			evals += v
		}
		for k, v := range r.SolverSec {
			solverSec[k] += v
		}
		for _, f := range r.RepoFuncs {
			funcs[f] = true
		}
		if !r.Complete {
			exhaustive = false
			incomplete = append(incomplete, r.Spec.Name+": "+r.StopReason)
		}
		var covers []string
		for c := range r.Covers {
			covers = append(covers, c)
		}
		sort.Strings(covers)
		ends := map[string]int{}
		for k, v := range r.Ends {
			ends[k] = v
		}
		fsum := map[string]int{}
		for _, f := range r.Findings {
			k := f.Kind + ": " + f.Label
			if f.Class != "" {
				k += " [known class " + f.Class + "]"
			}
			fsum[k]++
		}
		var scaled []string
		for _, sc := range r.Spec.Scaled {
			scaled = append(scaled, fmt.Sprintf("%s: /%s/ -> %q", sc.File, sc.Find, sc.Replace))
		}
		runs = append(runs, map[string]interface{}{
			"run": r.Spec.Name, "description": r.Spec.Description, "package": r.Spec.Pkg, "entry": r.Spec.Entry,
			"bounds":                    map[string]interface{}{"params": r.Tier.Params, "preemption_bound": r.Tier.Preempts, "preemption_points_restricted_to": r.Tier.PreemptIn, "scheduling_at_blocking_points": schedName(r.Tier.Sched), "scheduling_points_at_shared_memory": r.Tier.MemYield, "time_limit_s": r.Tier.TimeoutS, "step_budget_per_path": r.Tier.MaxSteps},
			"scaled_constants":          scaled,
			"paths_explored":            r.Paths,
			"paths_completed":           r.Done,
			"paths_reaching_assertions": r.Nontrivial,
			"path_ends":                 ends,
			"ssa_instructions_executed": r.Instrs,
			"forks":                     r.Forks,
			"if_conversions":            r.Merges,
			"model_reuse_hits":          r.ModelHits,
			"solver_queries":            r.Queries,
			"solver_seconds_summed":     r.SolverSec,
			"final_assertion_queries":   r.Final,
			"final_queries_cross_checked_on_z3_4_8_12": r.CrossChecked,
			"cross_check_disagreements":                r.CrossMismatch,
			"cover_points_reached":                     covers,
			"cover_points_required":                    r.Spec.Covers,
			"complete":                                 r.Complete,
			"stop_reason":                              r.StopReason,
			"max_threads":                              r.MaxThreads,
			"findings":                                 fsum,
			"witness_replays_matched":                  r.WitnessOK,
			"witness_replays_bad":                      r.WitnessBad,
			"load_seconds":                             r.Load,
			"explore_seconds":                          r.Wall,
		})
		n := 0
		for _, w := range r.Witnesses {
			if n >= 3 {
				break
			}
			samples = append(samples, map[string]interface{}{"run": r.Spec.Name, "kind": "completed path (model of its path condition)", "inputs": w.Values, "observations": w.Obs, "cover_points": w.Covers, "decisions": len(w.Decisions), "threads": w.Threads, "path_condition_conjuncts": w.PCSize})
			n++
		}
		n = 0
		for _, f := range r.Findings {
			if n >= 2 {
				break
			}
			samples = append(samples, map[string]interface{}{"run": r.Spec.Name, "kind": "finding: " + f.Kind, "label": f.Label, "class": f.Class, "inputs": f.Values, "decisions": f.Decisions})
			n++
		}
		if len(r.Witnesses) == 0 && len(r.Findings) == 0 {
			samples = append(samples, map[string]interface{}{"run": r.Spec.Name, "kind": "summary", "paths": r.Paths, "ends": ends})
		}
	}
	var fl []string
	for f := range funcs {
		fl = append(fl, f)
	}
	sort.Strings(fl)
	if len(samples) == 0 {
		samples = append(samples, map[string]interface{}{"kind": "none", "note": "no run produced a path"})
	}
	if states == 0 {
		states = 0
	}
	cov := map[string]interface{}{
		"states":                        states,
		"transitions":                   transitions,
		"traces_validated_against_impl": validated,
		"samples":                       samples,
		"evaluations":                   evals,
		"distinct_nontrivial":           nontrivial,
		"rule":                          "a case is one feasible symbolic path of a harness over the SSA of the current working tree (an equivalence class of concrete inputs x schedules x fault choices, decided by the SMT solver); evaluations = solver queries discharged; states = completed feasible paths; a path counts as non-trivial when its path condition constrains at least one symbolic input and it reaches at least one assertion site; paths are distinct by construction (distinct decision sequences)",
		"exhaustive":                    exhaustive,
		"explanation":                   "symbolic execution of the repository's go/ssa form with an SMT back end (z3 5.1 for bit-vectors, cvc5 for floating point); every assertion is a solver query over all inputs within the stated bounds",
		"functions_encoded":             fl,
		"runs":                          runs,
		"bounds":                        spec.Bounds,
		"models_used":                   spec.Models,
		"outside_the_claim":             spec.Outside,
		"solver_queries":                queries,
		"solver_seconds_summed":         solverSec,
		"final_assertion_queries":       finals,
		"incomplete":                    incomplete,
		"known_findings_reported":       knownHits,
		"unconfirmed_counterexamples":   unconfirmed,
		"inconclusive_queries":          inconclusive,
		"output":                        lines,
	}
	ev := map[string]interface{}{
		"property_id": spec.Property,
		"tier":        tier,
		"seed":        seed,
		"level":       level,
		"coverage":    cov,
		"assumptions": spec.Assumptions,
		"wall_s":      wall,
		"violations":  violations,
	}
	data, err := json.MarshalIndent(ev, "", " ")
	if err != nil {
		return err
	}
	dir := filepath.Join(verifDir, "evidence")
	os.MkdirAll(dir, 0o755)
	return os.WriteFile(filepath.Join(dir, spec.Property+".json"), data, 0o644)
}

func schedName(s string) string {
	if s == "det" {
		return "one deterministic round-robin order (the property is not schedule-quantified)"
	}
	return "every order (symbolic scheduler)"
}
