package main

// Threads: interpreted goroutines run as Go goroutines with baton passing, so
// exactly one executes at a time. Scheduling choices at visible operations are
// n-way decisions recorded in the decision prefix (context-bounded).

import (
	"fmt"
	"go/types"
	"strings"

	"golang.org/x/tools/go/ssa"
)

type thread struct {
	id      int
	wake    chan struct{}
	exited  chan struct{}
	done    bool
	started bool
	blocked func() bool // nil when runnable; otherwise "can proceed now?"
	where   string
	daemon  bool
	vc      vclock
	stack   []*ssa.Function
	killed  bool
}

type selCase struct {
	ch   *chanObj
	send bool
	val  value
}

type waiter struct {
	th       *thread
	cases    []selCase
	done     bool
	chosen   int
	recvVal  value
	recvOk   bool
	panicMsg string
}

type chanObj struct {
	cap    int
	buf    []value
	closed bool
	recvq  []*waiter
	sendq  []*waiter
	elem   types.Type
	id     int
}

type mutexState struct{ locked bool }
type wgState struct{ n int }

func (e *Engine) runnable(t *thread) bool {
	if t.done || t.killed {
		return false
	}
	if t.blocked == nil {
		return true
	}
	return t.blocked()
}

// transfer hands the baton to t and parks the current thread until it is woken.
func (e *Engine) transfer(to *thread) {
	cur := e.cur
	if to == cur {
		return
	}
	e.cur = to
	to.wake <- struct{}{}
	<-cur.wake
	if e.aborting {
		panic(pathEnd{"abort", ""})
	}
	if e.endReq != nil && cur.id == 0 {
		pe := *e.endReq
		panic(pe)
	}
}

// yield is called at visible operations while the current thread is runnable.
func (e *Engine) yield() {
	if len(e.threads) <= 1 {
		return
	}
	var others []*thread
	for _, t := range e.threads {
		if t != e.cur && e.runnable(t) {
			others = append(others, t)
		}
	}
	if len(others) == 0 || e.preempts >= e.maxPreempts || !e.preemptHere() {
		return
	}
	c := e.choose(len(others) + 1)
	if c == 0 {
		return
	}
	e.preempts++
	e.transfer(others[c-1])
}

// block parks the current thread until pred holds (checked by the scheduler).
func (e *Engine) block(pred func() bool, where string) {
	cur := e.cur
	cur.blocked = pred
	cur.where = where
	for !pred() {
		next := e.pickRunnable()
		if next == nil {
			if e.fireTimer() {
				continue
			}
			e.deadlock()
		}
		e.transfer(next)
	}
	cur.blocked = nil
}

func (e *Engine) pickRunnable() *thread {
	var rs []*thread
	for _, t := range e.threads {
		if t != e.cur && e.runnable(t) {
			rs = append(rs, t)
		}
	}
	if len(rs) == 0 {
		return nil
	}
	if len(rs) == 1 {
		return rs[0]
	}
	if e.detSched {
		return e.roundRobin(rs)
	}
	return rs[e.choose(len(rs))]
}

// roundRobin picks the runnable thread that follows the current one in id order
// (deterministic scheduling: only one interleaving of the free switch points is
// explored; used by harnesses whose property is not schedule-quantified).
func (e *Engine) roundRobin(rs []*thread) *thread {
	cur := -1
	if e.cur != nil {
		cur = e.cur.id
	}
	for _, t := range rs {
		if t.id > cur {
			return t
		}
	}
	return rs[0]
}

func (e *Engine) deadlock() {
	msg := "all threads blocked:"
	for _, t := range e.threads {
		if !t.done {
			msg += fmt.Sprintf(" T%d@%s", t.id, t.where)
		}
	}
	e.endFromThread(pathEnd{"deadlock", msg})
}

// endFromThread ends the path from whichever thread is running.
func (e *Engine) endFromThread(pe pathEnd) {
	if e.cur.id == 0 {
		panic(pe)
	}
	e.endReq = &pe
	main := e.threads[0]
	cur := e.cur
	e.cur = main
	main.wake <- struct{}{}
	<-cur.wake // parked until abort
	panic(pathEnd{"abort", ""})
}

func (e *Engine) spawn(fv value, args []value) {
	t := &thread{id: len(e.threads), wake: make(chan struct{}), exited: make(chan struct{}, 1)}
	e.threads = append(e.threads, t)
	t.vc = e.tvc(e.cur).copy()
	t.vc[t.id] = 1
	e.tick()
	go func() {
		<-t.wake
		t.started = true
		defer func() {
			r := recover()
			t.done = true
			if r != nil {
				if pe, ok := r.(pathEnd); ok {
					if pe.kind != "abort" {
						// a panic or other path end inside this goroutine ends the path
						e.endReq = &pe
						main := e.threads[0]
						e.cur = main
						t.exited <- struct{}{}
						main.wake <- struct{}{}
						return
					}
				} else {
					e.goPanic = r
				}
				t.exited <- struct{}{}
				return
			}
			t.exited <- struct{}{}
			// normal exit: hand the baton on
			next := e.pickRunnableAny(t)
			for next == nil && e.fireTimerFrom(t) {
				next = e.pickRunnableAny(t)
			}
			if next == nil {
				pe := pathEnd{"deadlock", "goroutine exited and nobody can run"}
				e.endReq = &pe
				next = e.threads[0]
			}
			e.cur = next
			next.wake <- struct{}{}
		}()
		if e.aborting {
			panic(pathEnd{"abort", ""})
		}
		e.callAny(nil, fv, args, 0)
	}()
}

func (e *Engine) pickRunnableAny(except *thread) *thread {
	var rs []*thread
	for _, t := range e.threads {
		if t != except && e.runnable(t) {
			rs = append(rs, t)
		}
	}
	if len(rs) == 0 {
		return nil
	}
	if len(rs) == 1 {
		return rs[0]
	}
	if e.detSched {
		return e.roundRobin(rs)
	}
	return rs[e.choose(len(rs))]
}

// abortThreads unwinds every parked goroutine at the end of a path.
func (e *Engine) abortThreads() {
	e.aborting = true
	for _, t := range e.threads[1:] {
		if t.done {
			continue
		}
		t.wake <- struct{}{}
		<-t.exited
	}
	e.aborting = false
}

// ---------------------------------------------------------------------------
// channels

func (e *Engine) liveWaiter(q *[]*waiter) *waiter {
	for len(*q) > 0 {
		w := (*q)[0]
		if w.done {
			*q = (*q)[1:]
			continue
		}
		return w
	}
	return nil
}

func (e *Engine) complete(w *waiter, ci int, v value, ok bool) {
	w.done = true
	w.chosen = ci
	w.recvVal = v
	w.recvOk = ok
}

func caseIndex(w *waiter, ch *chanObj, send bool) int {
	for i, c := range w.cases {
		if c.ch == ch && c.send == send {
			return i
		}
	}
	return -1
}

func (e *Engine) canRecv(ch *chanObj) bool {
	return ch != nil && (len(ch.buf) > 0 || e.liveWaiter(&ch.sendq) != nil || ch.closed)
}
func (e *Engine) canSend(ch *chanObj) bool {
	return ch != nil && (ch.closed || e.liveWaiter(&ch.recvq) != nil || len(ch.buf) < ch.cap)
}

func (e *Engine) doRecv(ch *chanObj) (value, bool) {
	e.hbAcquire(ch)
	defer e.hbRelease(ch)
	if len(ch.buf) > 0 {
		v := ch.buf[0]
		ch.buf = ch.buf[1:]
		if w := e.liveWaiter(&ch.sendq); w != nil {
			ci := caseIndex(w, ch, true)
			ch.buf = append(ch.buf, w.cases[ci].val)
			e.complete(w, ci, nil, false)
		}
		return v, true
	}
	if w := e.liveWaiter(&ch.sendq); w != nil {
		ci := caseIndex(w, ch, true)
		v := w.cases[ci].val
		e.complete(w, ci, nil, false)
		return v, true
	}
	if ch.closed {
		return zero(ch.elem), false
	}
	panic("doRecv not ready")
}

func (e *Engine) doSend(ch *chanObj, v value) {
	e.hbRelease(ch)
	if ch.closed {
		e.rtPanicT("send on closed channel")
	}
	if w := e.liveWaiter(&ch.recvq); w != nil {
		e.complete(w, caseIndex(w, ch, false), v, true)
		return
	}
	if len(ch.buf) < ch.cap {
		ch.buf = append(ch.buf, v)
		return
	}
	panic("doSend not ready")
}

func (e *Engine) rtPanicT(msg string) {
	e.lastPanicWhere = e.whereStr() + " <- " + e.stackStr()
	e.endFromThread(pathEnd{"panic", msg})
}

func (e *Engine) chanSend(ch *chanObj, v value) {
	e.yield()
	if ch == nil {
		e.block(func() bool { return false }, "send on nil channel")
	}
	if e.canSend(ch) {
		e.doSend(ch, v)
		return
	}
	w := &waiter{th: e.cur, cases: []selCase{{ch, true, v}}}
	ch.sendq = append(ch.sendq, w)
	e.hbRelease(ch) // the value may be taken by a receiver while this sender is parked
	e.block(func() bool { return w.done || ch.closed }, "chan send")
	e.hbAcquire(ch)
	if !w.done && ch.closed {
		w.done = true
		e.rtPanicT("send on closed channel")
	}
}

func (e *Engine) chanRecv(ch *chanObj) (value, bool) {
	e.yield()
	if ch == nil {
		e.block(func() bool { return false }, "receive on nil channel")
	}
	if e.canRecv(ch) {
		return e.doRecv(ch)
	}
	w := &waiter{th: e.cur, cases: []selCase{{ch, false, nil}}}
	ch.recvq = append(ch.recvq, w)
	e.block(func() bool { return w.done || ch.closed }, "chan receive")
	e.hbAcquire(ch) // the sender (or closer) released on ch before completing this receive
	if w.done {
		return w.recvVal, w.recvOk
	}
	w.done = true
	return zero(ch.elem), false
}

func (e *Engine) chanClose(ch *chanObj) {
	e.yield()
	if ch == nil {
		e.rtPanicT("close of nil channel")
	}
	if ch.closed {
		e.rtPanicT("close of closed channel")
	}
	e.hbRelease(ch)
	ch.closed = true
}

func (e *Engine) selectInstr(fr *frame, in *ssa.Select) value {
	e.yield()
	cases := make([]selCase, len(in.States))
	for i, st := range in.States {
		chv, _ := e.get(fr, st.Chan).(*chanObj)
		cases[i] = selCase{ch: chv, send: st.Dir == types.SendOnly}
		if cases[i].send {
			cases[i].val = e.get(fr, st.Send)
		}
	}
	ready := func() []int {
		var r []int
		for i, c := range cases {
			if c.ch == nil {
				continue
			}
			if c.send && e.canSend(c.ch) || !c.send && e.canRecv(c.ch) {
				r = append(r, i)
			}
		}
		return r
	}
	result := func(ci int, v value, ok bool) value {
		t := tuple{BV(64, uint64(int64(ci))), BoolT(ok)}
		for i, st := range in.States {
			if st.Dir == types.RecvOnly {
				if i == ci && v != nil {
					t = append(t, v)
				} else {
					t = append(t, zero(st.Chan.Type().Underlying().(*types.Chan).Elem()))
				}
			}
		}
		return t
	}
	r := ready()
	if len(r) > 0 {
		ci := r[0]
		if len(r) > 1 {
			ci = r[e.choose(len(r))]
		}
		if cases[ci].send {
			e.doSend(cases[ci].ch, cases[ci].val)
			return result(ci, nil, false)
		}
		v, ok := e.doRecv(cases[ci].ch)
		return result(ci, v, ok)
	}
	if !in.Blocking {
		return result(-1, nil, false)
	}
	w := &waiter{th: e.cur, cases: cases}
	for _, c := range cases {
		if c.ch == nil {
			continue
		}
		if c.send {
			c.ch.sendq = append(c.ch.sendq, w)
			e.hbRelease(c.ch)
		} else {
			c.ch.recvq = append(c.ch.recvq, w)
		}
	}
	e.block(func() bool {
		if w.done {
			return true
		}
		for _, c := range cases {
			if c.ch != nil && c.ch.closed {
				return true
			}
		}
		return false
	}, "select")
	if w.done {
		e.hbAcquire(cases[w.chosen].ch)
		return result(w.chosen, w.recvVal, w.recvOk)
	}
	w.done = true
	for i, c := range cases {
		if c.ch != nil && c.ch.closed {
			if c.send {
				e.rtPanicT("send on closed channel")
			}
			e.hbAcquire(c.ch)
			return result(i, zero(c.ch.elem), false)
		}
	}
	panic("select woke without reason")
}

// ---------------------------------------------------------------------------
// sync models (keyed by the address of the sync object)

func (e *Engine) setupSyncExt() {
	x := e.ext
	mu := func(a value) *mutexState {
		p := a.(*value)
		m, ok := e.mutexes[p]
		if !ok {
			m = &mutexState{}
			e.mutexes[p] = m
		}
		return m
	}
	x["(*sync.Mutex).Lock"] = func(e *Engine, fr *frame, a []value) value {
		e.yield()
		m := mu(a[0])
		if m.locked {
			e.block(func() bool { return !m.locked }, "mutex lock")
		}
		m.locked = true
		e.hbAcquire(m)
		return nil
	}
	x["(*sync.Mutex).Unlock"] = func(e *Engine, fr *frame, a []value) value {
		m := mu(a[0])
		if !m.locked {
			e.rtPanicT("unlock of unlocked mutex")
		}
		m.locked = false
		e.hbRelease(m)
		e.yield()
		return nil
	}
	wg := func(a value) *wgState {
		p := a.(*value)
		w, ok := e.wgs[p]
		if !ok {
			w = &wgState{}
			e.wgs[p] = w
		}
		return w
	}
	x["(*sync.WaitGroup).Add"] = func(e *Engine, fr *frame, a []value) value {
		w := wg(a[0])
		w.n += int(sext(a[1].(*Term).V, 64))
		if w.n < 0 {
			e.rtPanicT("negative WaitGroup counter")
		}
		return nil
	}
	x["(*sync.WaitGroup).Done"] = func(e *Engine, fr *frame, a []value) value {
		w := wg(a[0])
		w.n--
		if w.n < 0 {
			e.rtPanicT("negative WaitGroup counter")
		}
		e.hbRelease(w)
		e.yield()
		return nil
	}
	x["(*sync.WaitGroup).Wait"] = func(e *Engine, fr *frame, a []value) value {
		e.yield()
		w := wg(a[0])
		if w.n > 0 {
			e.block(func() bool { return w.n == 0 }, "WaitGroup.Wait")
		}
		e.hbAcquire(w)
		return nil
	}
}

// fireTimerFrom fires a timer on behalf of an exiting thread.
func (e *Engine) fireTimerFrom(t *thread) bool { return e.fireTimer() }

// preemptHere: pre-emptive switches are only considered at visible operations
// issued by repository code (not by harness code, intrinsics or library code
// called from them); switches at blocking operations are unaffected.
func (e *Engine) preemptHere() bool {
	if e.curInstr == nil || e.curInstr.Parent() == nil {
		return false
	}
	return e.preemptHereFn(e.curInstr.Parent())
}

// preemptHereFn: fn belongs to repository code proper (not to a harness file,
// not to the intrinsics package).
func (e *Engine) preemptHereFn(fn *ssa.Function) bool {
	if v, ok := e.preemptOK[fn]; ok {
		return v
	}
	ok := false
	root := fn
	for root.Parent() != nil {
		root = root.Parent()
	}
	if root.Pkg != nil {
		p := root.Pkg.Pkg.Path()
		if strings.HasPrefix(p, repoMod) && p != rtPkg && !strings.HasSuffix(p, "/zzverifself") {
			pos := e.prog.Fset.Position(fn.Pos())
			base := pos.Filename[strings.LastIndex(pos.Filename, "/")+1:]
			ok = !strings.HasPrefix(base, "zz_verif")
		} else if strings.HasSuffix(p, "/zzverifself") {
			ok = true
		}
	}
	if ok && len(e.preemptIn) > 0 {
		ok = false
		for _, pat := range e.preemptIn {
			if strings.Contains(fn.String(), pat) {
				ok = true
			}
		}
	}
	e.preemptOK[fn] = ok
	return ok
}

// isHarnessFn: fn is harness or model code (a zz_verif file or the intrinsics
// package), as opposed to repository or library code.
func (e *Engine) isHarnessFn(fn *ssa.Function) bool {
	if v, ok := e.harnessFn[fn]; ok {
		return v
	}
	root := fn
	for root.Parent() != nil {
		root = root.Parent()
	}
	res := false
	if root.Pkg != nil {
		p := root.Pkg.Pkg.Path()
		if p == rtPkg {
			res = true
		} else if strings.HasPrefix(p, repoMod) && !strings.HasSuffix(p, "/zzverifself") {
			pos := e.prog.Fset.Position(fn.Pos())
			base := pos.Filename[strings.LastIndex(pos.Filename, "/")+1:]
			res = strings.HasPrefix(base, "zz_verif")
		}
	}
	e.harnessFn[fn] = res
	return res
}
