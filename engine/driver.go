package main

// vcheck: the check driver. `vcheck run <ID> --tier quick|thorough` loads the
// property's specification (/verif/checks/<ID>.json), regenerates the SSA of the
// repository's current working tree (with the harness overlay), explores every
// harness symbolically with a pool of workers, replays counterexamples and path
// witnesses against the real build, writes /verif/evidence/<ID>.json and exits
// 0 (held / known findings only), 1 (VIOLATION) or 2 (machinery problem).

import (
	"encoding/json"
	"flag"
	"fmt"
	"os"
	"os/exec"
	"os/signal"
	"path/filepath"
	"regexp"
	"runtime/pprof"
	"sort"
	"strconv"
	"strings"
	"sync"
	"sync/atomic"
	"syscall"
	"time"

	"golang.org/x/tools/go/packages"
	"golang.org/x/tools/go/ssa"
	"golang.org/x/tools/go/ssa/ssautil"
)

const repoMod = "github.com/google/inverting-proxy"

// defaultInit: packages whose var initialisers are interpreted at the start of
// every path (a run may add more, or remove one with "-pkg"). Reading a
// package-level variable of any other package that has an initialiser ends the
// path as unsupported, never with a silent zero value.
var defaultInit = []string{"io", "errors", "strings", "strconv", "bytes", "unicode/utf8", "context", "net/http", "net/textproto", "net/url",
	"vendor/golang.org/x/net/http/httpguts", "encoding/hex", "encoding/base64", "io/fs", "os", "syscall", "internal/oserror", "internal/poll", "math/rand",
	"github.com/gorilla/websocket", "container/list", "sort", "path", "net/http/httputil", "net/http/cookiejar", "golang.org/x/net/publicsuffix", "net/http/httptrace", "github.com/golang/groupcache/lru", "github.com/google/uuid", "google.golang.org/appengine/v2/datastore", "google.golang.org/appengine/v2/memcache", "google.golang.org/appengine/v2/user", "google.golang.org/appengine/v2", "net/http/internal", "net/http/internal/ascii", "mime", "bufio", "net", "sync", "time"}

var (
	verifDir = envOr("VERIF_DIR", "/verif")
	repoDir  = envOr("VERIF_REPO", "/repo")
)

func envOr(k, d string) string {
	if v := os.Getenv(k); v != "" {
		return v
	}
	return d
}

type ScaledConst struct {
	File    string `json:"file"`    // relative to the repository root
	Find    string `json:"find"`    // regular expression on the current file text
	Replace string `json:"replace"` // replacement
}

type TierSpec struct {
	Params     map[string]int `json:"params"`
	Preempts   int            `json:"preempts"`
	MemYield   bool           `json:"memyield"`
	TimeoutS   int            `json:"timeout_s"`
	MaxPaths   int            `json:"max_paths"`
	Witnesses  int            `json:"witnesses"`
	MaxSteps   int            `json:"max_steps"`
	CrossCheck bool           `json:"cross_check"` // repeat every final assertion query on z3 4.8.12
	PreemptIn  []string       `json:"preempt_in"`  // restrict pre-emption points to functions whose name contains one of these
	Sched      string         `json:"sched"`       // "" = every order at blocking points; "det" = one round-robin order
}

type RunSpec struct {
	Name        string               `json:"name"`
	Description string               `json:"description"`
	Pkg         string               `json:"pkg"`
	Entry       string               `json:"entry"`
	Init        []string             `json:"init"`
	Tiers       map[string]*TierSpec `json:"tiers"`
	Scaled      []ScaledConst        `json:"scaled"`
	Threads     bool                 `json:"threads"` // harness spawns goroutines: native witness replay compares less
	NoNative    bool                 `json:"no_native"`
	Race        bool                 `json:"race"` // native replays run with -race
	Covers      []string             `json:"covers"`
	FP          bool                 `json:"fp"`
	Expect      string               `json:"expect"` // self-tests: a finding of this kind must be reported
}

type Spec struct {
	Property    string    `json:"property"`
	Level       string    `json:"level"`
	Runs        []RunSpec `json:"runs"`
	Assumptions []string  `json:"assumptions"`
	Models      []string  `json:"models"`
	Bounds      string    `json:"bounds"`
	Outside     []string  `json:"outside"`
	LevelText   string    `json:"level_text"`
	LevelNote   string    `json:"level_note"`
	Technique   string    `json:"technique"`
	DesignRef   string    `json:"design_ref"`
}

type KnownFinding struct {
	Property string `json:"property"`
	ID       string `json:"id"`
	Status   string `json:"status"` // known | fixed
	Class    string `json:"class"`
	Commit   string `json:"commit,omitempty"`
	Witness  string `json:"witness,omitempty"`
	What     string `json:"what,omitempty"`
	// Labels restricts a known class to findings whose label contains one of these
	// substrings (empty = any finding inside the class predicate).
	Labels []string `json:"labels,omitempty"`
}

type RunResult struct {
	Spec                        *RunSpec
	Tier                        *TierSpec
	Paths                       int
	Done                        int
	Nontrivial                  int
	Instrs                      int
	Forks                       int
	Merges                      int
	ModelHits                   int
	Ends                        map[string]int
	Covers                      map[string]bool
	Findings                    []*Finding
	Witnesses                   []*Witness
	Queries                     map[string]int
	SolverSec                   map[string]float64
	Final                       int
	RepoFuncs                   []string
	Wall                        float64
	Load                        float64
	Complete                    bool
	StopReason                  string
	Skipped                     string
	MaxThreads                  int
	WitnessOK                   int
	WitnessBad                  []string
	PkgName                     string
	CrossChecked, CrossMismatch int
	SkippedInit                 []string
}

func main() {
	if len(os.Args) < 2 {
		usage()
	}
	if pf := os.Getenv("GOSYM_CPUPROFILE"); pf != "" {
		f, _ := os.Create(pf)
		pprof.StartCPUProfile(f)
		defer pprof.StopCPUProfile()
	}
	switch os.Args[1] {
	case "run":
		if os.Getenv("GOSYM_HOTSPOTS") != "" {
			hotspots = map[string]int{}
		}
		rc := cmdRun(os.Args[2:])
		if hotspots != nil {
			type kv struct {
				k string
				v int
			}
			var l []kv
			for k, v := range hotspots {
				l = append(l, kv{k, v})
			}
			sort.Slice(l, func(i, j int) bool { return l[i].v > l[j].v })
			for i := 0; i < len(l) && i < 40; i++ {
				fmt.Fprintf(os.Stderr, "one-sided decisions %7d  %s\n", l[i].v, l[i].k)
			}
		}
		pprof.StopCPUProfile()
		os.Exit(rc)
	case "replay":
		os.Exit(cmdReplay(os.Args[2:]))
	case "list":
		m, _ := filepath.Glob(filepath.Join(verifDir, "checks", "*.json"))
		for _, f := range m {
			fmt.Println(strings.TrimSuffix(filepath.Base(f), ".json"))
		}
	default:
		usage()
	}
}

func usage() {
	fmt.Fprintln(os.Stderr, "usage: vcheck run <ID> [--tier quick|thorough] [--only run] [--workers n] | vcheck replay <file> | vcheck list")
	os.Exit(2)
}

func loadSpec(id string) (*Spec, error) {
	data, err := os.ReadFile(filepath.Join(verifDir, "checks", id+".json"))
	if err != nil {
		return nil, err
	}
	var s Spec
	dec := json.NewDecoder(strings.NewReader(string(data)))
	dec.DisallowUnknownFields()
	if err := dec.Decode(&s); err != nil {
		return nil, fmt.Errorf("checks/%s.json: %v", id, err)
	}
	return &s, nil
}

func loadKnown() []KnownFinding {
	var ks []KnownFinding
	data, err := os.ReadFile(filepath.Join(verifDir, "known_findings.json"))
	if err != nil {
		return nil
	}
	if err := json.Unmarshal(data, &ks); err != nil {
		fmt.Fprintln(os.Stderr, "known_findings.json:", err)
		os.Exit(2)
	}
	return ks
}

// harnessOverlay maps virtual paths under the repository to the harness files
// under /verif (plus rewritten copies for scaled constants).
func harnessOverlay(run *RunSpec, workDir string) (map[string]string, []string, error) {
	ov := map[string]string{}
	var notes []string
	rtFiles, _ := filepath.Glob(filepath.Join(verifDir, "rt", "*.go"))
	for _, f := range rtFiles {
		ov[filepath.Join(repoDir, "zzverifrt", filepath.Base(f))] = f
	}
	root := filepath.Join(verifDir, "harness")
	err := filepath.Walk(root, func(p string, info os.FileInfo, err error) error {
		if err != nil || info.IsDir() || !strings.HasSuffix(p, ".go") {
			return err
		}
		rel, _ := filepath.Rel(root, p)
		ov[filepath.Join(repoDir, rel)] = p
		return nil
	})
	if err != nil {
		return nil, nil, err
	}
	for i, sc := range run.Scaled {
		src := filepath.Join(repoDir, sc.File)
		data, err := os.ReadFile(src)
		if err != nil {
			return nil, nil, err
		}
		re, err := regexp.Compile(sc.Find)
		if err != nil {
			return nil, nil, err
		}
		if len(re.FindAllIndex(data, -1)) != 1 {
			return nil, nil, fmt.Errorf("scaled constant %q: pattern matches %d times in %s", sc.Find, len(re.FindAllIndex(data, -1)), sc.File)
		}
		out := re.ReplaceAll(data, []byte(sc.Replace))
		dst := filepath.Join(workDir, fmt.Sprintf("scaled_%s_%d_%s", run.Name, i, filepath.Base(sc.File)))
		if err := os.WriteFile(dst, out, 0o644); err != nil {
			return nil, nil, err
		}
		ov[src] = dst
		notes = append(notes, fmt.Sprintf("%s: /%s/ -> %q", sc.File, sc.Find, sc.Replace))
	}
	return ov, notes, nil
}

type loaded struct {
	prog  *ssa.Program
	spkgs []*ssa.Package
	pkgs  []*packages.Package
	secs  float64
}

func loadProgram(pattern string, ov map[string]string) (*loaded, error) {
	t0 := time.Now()
	cfg := &packages.Config{Mode: packages.LoadAllSyntax, Dir: repoDir, BuildFlags: []string{"-tags=verif"},
		Env: append(os.Environ(), "GOFLAGS=-mod=mod", "GOPROXY=off", "GOSUMDB=off", "GOTOOLCHAIN=local")}
	cfg.Overlay = map[string][]byte{}
	for k, v := range ov {
		if strings.HasSuffix(k, "_test.go") {
			continue
		}
		b, err := os.ReadFile(v)
		if err != nil {
			return nil, err
		}
		cfg.Overlay[k] = b
	}
	pkgs, err := packages.Load(cfg, pattern)
	if err != nil {
		return nil, err
	}
	var errs []string
	packages.Visit(pkgs, nil, func(p *packages.Package) {
		for _, e := range p.Errors {
			errs = append(errs, e.Error())
		}
	})
	if len(errs) > 0 {
		if len(errs) > 10 {
			errs = errs[:10]
		}
		return nil, fmt.Errorf("package errors: %s", strings.Join(errs, " | "))
	}
	prog, spkgs := ssautil.AllPackages(pkgs, ssa.InstantiateGenerics)
	prog.Build()
	return &loaded{prog: prog, spkgs: spkgs, pkgs: pkgs, secs: time.Since(t0).Seconds()}, nil
}

func cmdRun(args []string) int {
	fs := flag.NewFlagSet("run", flag.ExitOnError)
	tier := fs.String("tier", envOr("VERIF_TIER", "quick"), "quick | thorough")
	only := fs.String("only", "", "run only the harness runs with these names (comma separated)")
	workers := fs.Int("workers", 16, "worker count")
	noNative := fs.Bool("no-native", false, "skip native replays (development)")
	verbose := fs.Bool("v", false, "verbose")
	paramOv := fs.String("param", "", "override params k=v,k=v (development)")
	id := ""
	if len(args) > 0 && !strings.HasPrefix(args[0], "-") {
		id = args[0]
		args = args[1:]
	}
	fs.Parse(args)
	if id == "" {
		usage()
	}
	seed := 0
	if s := os.Getenv("VERIF_SEED"); s != "" {
		seed, _ = strconv.Atoi(s)
	}
	if s := os.Getenv("VERIF_WORKERS"); s != "" {
		*workers, _ = strconv.Atoi(s)
	}
	t0 := time.Now()
	spec, err := loadSpec(id)
	if err != nil {
		fmt.Fprintln(os.Stderr, "vcheck:", err)
		return 2
	}
	known := loadKnown()
	knownIDs := map[string]bool{}
	knownLabels := map[string][]string{}
	for _, k := range known {
		if k.Property == spec.Property && k.Status == "known" {
			knownIDs[k.ID] = true
			knownLabels[k.ID] = k.Labels
		}
	}
	workDir := filepath.Join(verifDir, ".work", id+"-"+*tier)
	os.RemoveAll(workDir)
	os.MkdirAll(workDir, 0o755)
	replayDir := filepath.Join(verifDir, "evidence", "replay")
	os.MkdirAll(replayDir, 0o755)
	// stale replay files of this property
	if old, _ := filepath.Glob(filepath.Join(replayDir, id+"-*.json")); true {
		for _, f := range old {
			os.Remove(f)
		}
	}

	// kill solver children on a signal
	sigc := make(chan os.Signal, 1)
	signal.Notify(sigc, syscall.SIGTERM, syscall.SIGINT)
	stopAll := make(chan struct{})
	go func() {
		<-sigc
		close(stopAll)
	}()

	var results []*RunResult
	exit := 0
	var lines []string
	say := func(format string, a ...interface{}) {
		s := fmt.Sprintf(format, a...)
		fmt.Println(s)
		lines = append(lines, s)
	}
	onlySet := map[string]bool{}
	for _, n := range strings.Split(*only, ",") {
		if n != "" {
			onlySet[n] = true
		}
	}
	overrides := map[string]int{}
	for _, kv := range strings.Split(*paramOv, ",") {
		if i := strings.Index(kv, "="); i > 0 {
			v, _ := strconv.Atoi(kv[i+1:])
			overrides[kv[:i]] = v
		}
	}
	violations, knownHits, unconfirmed, inconclusive, vacuous := 0, 0, 0, 0, 0
	printedKnown := map[string]bool{}
	for ri := range spec.Runs {
		run := &spec.Runs[ri]
		if len(onlySet) > 0 && !onlySet[run.Name] {
			continue
		}
		ts := run.Tiers[*tier]
		if ts == nil {
			continue
		}
		if len(overrides) > 0 {
			if ts.Params == nil {
				ts.Params = map[string]int{}
			}
			for k, v := range overrides {
				ts.Params[k] = v
			}
		}
		res := exploreRun(spec, run, ts, *workers, seed, knownIDs, workDir, stopAll, *verbose)
		demoteMislabelled(res, knownLabels)
		results = append(results, res)
		if res.Skipped != "" {
			say("SKIPPED run=%s: %s", run.Name, res.Skipped)
			if strings.HasPrefix(res.Skipped, "load:") {
				exit = 2
			}
			continue
		}
		say("run=%s paths=%d done=%d findings=%d complete=%v wall=%.1fs load=%.1fs ends=%v", run.Name, res.Paths, res.Done, len(res.Findings), res.Complete, res.Wall, res.Load, compactEnds(res.Ends))
		if !res.Complete {
			say("INCOMPLETE run=%s: %s %s", run.Name, res.StopReason, detailEnds(res.Ends))
			if os.Getenv("GOSYM_DEBUG") != "" {
				for _, s := range res.SkippedInit {
					fmt.Fprintln(os.Stderr, "  skipped init:", s)
				}
			}
		}
		if res.Done == 0 && len(res.Findings) == 0 {
			say("NOTHING-EXPLORED run=%s: no path completed; this is a machinery problem, not a verdict", run.Name)
			vacuous++
		}
		// vacuity
		// a run cut short by its time or path limit (or stopped after enough
		// counterexamples) has simply not got there yet: that is a reduced bound,
		// reported as such, not a vacuous harness
		cut := !res.Complete && (strings.HasPrefix(res.StopReason, "time limit") || strings.HasPrefix(res.StopReason, "path limit") || strings.HasPrefix(res.StopReason, "stopped early") || res.StopReason == "interrupted")
		for _, c := range run.Covers {
			if !res.Covers[c] {
				if cut {
					say("INCOMPLETE run=%s: cover point %q not reached before the run was cut (%s)", run.Name, c, res.StopReason)
					continue
				}
				say("VACUOUS run=%s cover point %q was not reached on any feasible path", run.Name, c)
				vacuous++
			}
		}
		// findings: group by key
		groups := map[string][]*Finding{}
		var order []string
		for _, f := range res.Findings {
			f.Run = run.Name
			k := f.key()
			if _, ok := groups[k]; !ok {
				order = append(order, k)
			}
			groups[k] = append(groups[k], f)
		}
		sort.Strings(order)
		if run.Expect != "" {
			hit := false
			for _, k := range order {
				if groups[k][0].Kind == run.Expect {
					hit = true
				}
			}
			if hit {
				say("EXPECTED-FINDING run=%s kind=%s reported as required", run.Name, run.Expect)
			} else {
				say("MISSING-EXPECTED-FINDING run=%s kind=%s: the engine failed to report it", run.Name, run.Expect)
				vacuous++
			}
			continue
		}
		for gi, k := range order {
			fsn := groups[k]
			f0 := fsn[0]
			if f0.Kind == "unknown" {
				say("INCONCLUSIVE property=%s run=%s assertion=%q: %s", id, run.Name, f0.Label, f0.Msg)
				inconclusive++
				continue
			}
			// confirm by replay: up to 3 different assignments
			confirmed := ""
			var path string
			tries := fsn
			if len(tries) > 3 {
				tries = tries[:3]
			}
			for ti, f := range tries {
				path = filepath.Join(replayDir, fmt.Sprintf("%s-%s-%d-%d.json", id, run.Name, gi, ti))
				writeReplayFile(path, spec, run, ts, f)
				how, ok := confirmFinding(spec, run, ts, f, path, res, workDir, *noNative)
				if ok {
					confirmed = how
					break
				}
				if *verbose {
					say("  replay %s: %s", path, how)
				}
			}
			if f0.Class != "" {
				if confirmed != "" {
					if !printedKnown[f0.Class+f0.Label] {
						printedKnown[f0.Class+f0.Label] = true
						say("KNOWN-FINDING: property=%s class=%s %s %q (%d paths; replay=%s; confirmed %s)", id, f0.Class, f0.Kind, f0.Label, len(fsn), path, confirmed)
					}
					knownHits++
				} else {
					say("UNCONFIRMED (known class %s) property=%s %s %q", f0.Class, id, f0.Kind, f0.Label)
					unconfirmed++
				}
				continue
			}
			if confirmed != "" {
				say("VIOLATION property=%s replay=%s", id, path)
				say("  run=%s %s: %s %s (%d paths; confirmed %s) values: %s", run.Name, f0.Kind, f0.Label, f0.Msg, len(fsn), confirmed, fmtModel(f0.Values))
				violations++
				exit = 1
			} else {
				say("UNCONFIRMED property=%s run=%s %s %q: the counterexample did not reproduce against the real build; treated as a machinery problem, not a violation (replay=%s)", id, run.Name, f0.Kind, f0.Label, path)
				unconfirmed++
			}
		}
		// witness validation
		if !*noNative && !run.NoNative && len(res.Witnesses) > 0 {
			ok, bad := validateWitnesses(spec, run, ts, res, workDir)
			res.WitnessOK = ok
			res.WitnessBad = bad
			for _, b := range bad {
				say("WITNESS-MISMATCH run=%s %s", run.Name, b)
			}
			if len(bad) > 0 && exit == 0 {
				exit = 2
			}
		}
	}
	if vacuous > 0 && exit == 0 {
		exit = 2
	}
	if unconfirmed > 0 && exit == 0 && os.Getenv("VERIF_STRICT") != "" {
		exit = 2
	}
	wall := time.Since(t0).Seconds()
	if err := writeEvidence(spec, *tier, seed, results, wall, violations, knownHits, unconfirmed, inconclusive, lines); err != nil {
		fmt.Fprintln(os.Stderr, "vcheck: evidence:", err)
		if exit == 0 {
			exit = 2
		}
	}
	if os.Getenv("VERIF_KEEP_WORK") == "" {
		os.RemoveAll(workDir)
	}
	say("property=%s tier=%s violations=%d known=%d unconfirmed=%d inconclusive=%d exit=%d wall=%.1fs", id, *tier, violations, knownHits, unconfirmed, inconclusive, exit, wall)
	return exit
}

func detailEnds(m map[string]int) string {
	var ks []string
	for k := range m {
		if strings.HasPrefix(k, "unsupported: ") || strings.HasPrefix(k, "truncated: ") || strings.HasPrefix(k, "engine-error: ") {
			ks = append(ks, fmt.Sprintf("[%s x%d]", k, m[k]))
		}
	}
	sort.Strings(ks)
	if len(ks) > 6 {
		ks = ks[:6]
	}
	return strings.Join(ks, " ")
}

func compactEnds(m map[string]int) string {
	var ks []string
	for k := range m {
		if !strings.Contains(k, ": ") {
			ks = append(ks, k)
		}
	}
	sort.Strings(ks)
	var sb strings.Builder
	for _, k := range ks {
		fmt.Fprintf(&sb, "%s=%d ", k, m[k])
	}
	return strings.TrimSpace(sb.String())
}

func exploreRun(spec *Spec, run *RunSpec, ts *TierSpec, nworkers, seed int, knownIDs map[string]bool, workDir string, stopAll chan struct{}, verbose bool) *RunResult {
	res := &RunResult{Spec: run, Tier: ts, Ends: map[string]int{}, Covers: map[string]bool{}, Queries: map[string]int{}, SolverSec: map[string]float64{}}
	ov, _, err := harnessOverlay(run, workDir)
	if err != nil {
		res.Skipped = "scaled constant not applicable: " + err.Error()
		return res
	}
	ld, err := loadProgram(run.Pkg, ov)
	if err != nil {
		res.Skipped = "load: " + err.Error()
		return res
	}
	res.Load = ld.secs
	var harness *ssa.Function
	for _, sp := range ld.spkgs {
		if sp != nil {
			if f := sp.Func(run.Entry); f != nil && len(ld.pkgs) > 0 && sp.Pkg.Path() == ld.pkgs[0].PkgPath {
				harness = f
			}
		}
	}
	if harness == nil {
		res.Skipped = "load: no harness function " + run.Entry + " in " + run.Pkg
		return res
	}
	res.PkgName = harness.Pkg.Pkg.Name()
	timeout := time.Duration(ts.TimeoutS) * time.Second
	if timeout == 0 {
		timeout = 10 * time.Minute
	}
	maxPaths := ts.MaxPaths
	if maxPaths == 0 {
		maxPaths = 50_000_000
	}
	wq := ts.Witnesses
	if wq == 0 {
		wq = 16
	}
	if run.NoNative {
		wq = 0
	}
	t1 := time.Now()
	deadline := t1.Add(timeout)
	var mu sync.Mutex
	cond := sync.NewCond(&mu)
	work := [][]int{nil}
	active, total := 0, 0
	stop := ""
	engines := make([]*Engine, nworkers)
	var violCount int64
	var wg sync.WaitGroup
	for w := 0; w < nworkers; w++ {
		e := newEngine(ld.prog, run, ts, knownIDs, seed+w)
		e.initAllow[harness.Pkg.Pkg.Path()] = true
		e.initAllow[rtPkg] = true
		e.witnessQuota = (wq + nworkers - 1) / nworkers
		e.violCounter = &violCount
		engines[w] = e
		wg.Add(1)
		go func(e *Engine) {
			defer wg.Done()
			defer e.closeSolvers()
			for {
				mu.Lock()
				for len(work) == 0 && active > 0 && stop == "" {
					cond.Wait()
				}
				if stop == "" {
					select {
					case <-stopAll:
						stop = "interrupted"
					default:
					}
					if time.Now().After(deadline) {
						stop = fmt.Sprintf("time limit %ds", ts.TimeoutS)
					} else if total >= maxPaths {
						stop = fmt.Sprintf("path limit %d", maxPaths)
					} else if atomic.LoadInt64(&violCount) >= 64 {
						stop = "stopped early: 64 counterexamples outside the known classes already collected"
					}
				}
				if len(work) == 0 || stop != "" {
					mu.Unlock()
					cond.Broadcast()
					return
				}
				pre := work[len(work)-1]
				work = work[:len(work)-1]
				active++
				total++
				if verbose && total%2000 == 0 {
					fmt.Fprintf(os.Stderr, "  %s: paths=%d work=%d wall=%.1fs\n", run.Name, total, len(work), time.Since(t1).Seconds())
				}
				mu.Unlock()
				e.work = nil
				e.deadline = deadline
				func() {
					defer func() {
						if r := recover(); r != nil {
							// an engine bug on this path: record and go on
							e.ends["engine-error"]++
							e.ends["engine-error: "+fmt.Sprint(r)]++
							e.engineErrors = append(e.engineErrors, fmt.Sprint(r))
							e.restartSolvers()
						}
					}()
					e.runPath(harness, pre)
				}()
				mu.Lock()
				work = append(work, e.work...)
				active--
				mu.Unlock()
				cond.Broadcast()
			}
		}(e)
	}
	wg.Wait()
	res.Wall = time.Since(t1).Seconds()
	res.Complete = stop == "" && len(work) == 0
	res.StopReason = stop
	funcs := map[string]bool{}
	for _, e := range engines {
		res.Paths += e.Paths
		res.Done += e.DonePaths
		res.Nontrivial += e.Nontrivial
		res.Instrs += e.Instrs
		res.Forks += e.Forks
		res.Merges += e.Merges
		res.ModelHits += e.ModelHits
		res.Final += e.finalQueries
		res.CrossChecked += e.CrossChecked
		res.CrossMismatch += e.CrossMismatch
		for k, v := range e.ends {
			res.Ends[k] += v
		}
		for k := range e.allCovers {
			res.Covers[k] = true
		}
		res.Findings = append(res.Findings, e.findings...)
		res.Witnesses = append(res.Witnesses, e.witnesses...)
		for _, s := range e.allSolvers() {
			res.Queries[s.name] += s.Queries
			res.SolverSec[s.name] += s.Time.Seconds()
		}
		for f := range e.repoFuncs {
			funcs[f] = true
		}
		if len(res.SkippedInit) == 0 {
			res.SkippedInit = e.skippedInit
		}
		if e.maxThreads > res.MaxThreads {
			res.MaxThreads = e.maxThreads
		}
	}
	if res.Ends["truncated"] > 0 || res.Ends["engine-error"] > 0 || res.Ends["unsupported"] > 0 {
		res.Complete = false
		if res.StopReason == "" {
			res.StopReason = "some paths were truncated at a bound, left the supported subset or hit an engine error"
		}
	}
	for f := range funcs {
		res.RepoFuncs = append(res.RepoFuncs, f)
	}
	sort.Strings(res.RepoFuncs)
	sort.SliceStable(res.Findings, func(i, j int) bool {
		a, b := res.Findings[i], res.Findings[j]
		if a.key() != b.key() {
			return a.key() < b.key()
		}
		return len(a.Decisions) < len(b.Decisions)
	})
	return res
}

func newEngine(prog *ssa.Program, run *RunSpec, ts *TierSpec, knownIDs map[string]bool, seed int) *Engine {
	e := &Engine{prog: prog, globals: map[*ssa.Global]*value{}, initDone: map[*ssa.Package]bool{}, initAllow: map[string]bool{"io": true},
		ends: map[string]int{}, allCovers: map[string]bool{}, maxSteps: 4000000}
	if ts.MaxSteps > 0 {
		e.maxSteps = ts.MaxSteps
	}
	e.initDeny = map[string]bool{}
	e.preemptOK = map[*ssa.Function]bool{}
	e.harnessFn = map[*ssa.Function]bool{}
	for _, p := range defaultInit {
		e.initAllow[p] = true
	}
	for _, p := range run.Init {
		if strings.HasPrefix(p, "-") {
			delete(e.initAllow, p[1:])
			e.initDeny[p[1:]] = true
		} else {
			e.initAllow[p] = true
		}
	}
	e.params = ts.Params
	e.knownIDs = knownIDs
	e.seed = seed
	e.solver = NewSolver(solverKind())
	e.setupExt()
	e.setupSyncExt()
	e.setupHTTPModel()
	e.setupModels()
	if ts.CrossCheck {
		e.crossCheck = crossCheckFinal
		e.xBudget = 120 * time.Second
	}
	e.maxPreempts = ts.Preempts
	e.preemptIn = ts.PreemptIn
	e.detSched = ts.Sched == "det"
	e.memYield = ts.MemYield
	e.fnInfos = map[*ssa.Function]*fnInfo{}
	e.fnMetas = map[*ssa.Function]*fnMeta{}
	e.initGlobals = map[*ssa.Package]map[*ssa.Global]bool{}
	e.funcsSeen = map[*ssa.Function]bool{}
	e.repoFuncs = map[string]bool{}
	return e
}

func (e *Engine) allSolvers() []*Solver {
	var ss []*Solver
	if e.solver != nil {
		ss = append(ss, e.solver)
	}
	if e.fpSolver != nil {
		ss = append(ss, e.fpSolver)
	}
	if e.xSolver != nil {
		ss = append(ss, e.xSolver)
	}
	return ss
}

func (e *Engine) closeSolvers() {
	for _, s := range e.allSolvers() {
		s.Close()
	}
}

func (e *Engine) restartSolvers() {
	if e.solver != nil {
		q, t := e.solver.Queries, e.solver.Time
		e.solver.Kill()
		e.solver = NewSolver(e.solver.name)
		e.solver.Queries, e.solver.Time = q, t
	}
	if e.fpSolver != nil {
		q, t := e.fpSolver.Queries, e.fpSolver.Time
		e.fpSolver.Kill()
		e.fpSolver = NewSolver("cvc5")
		e.fpSolver.Queries, e.fpSolver.Time = q, t
	}
}

// ---------------------------------------------------------------------------
// replay files, confirmation, witness validation

type replayFile struct {
	Property string            `json:"property"`
	Run      string            `json:"run"`
	Pkg      string            `json:"pkg"`
	Entry    string            `json:"entry"`
	Kind     string            `json:"kind"`
	Label    string            `json:"label"`
	Class    string            `json:"class"`
	Values   map[string]string `json:"values"`
	Params   map[string]int    `json:"params"`
	Schedule []int             `json:"decisions,omitempty"`
	Choices  []int             `json:"schedule_choices,omitempty"`
	Obs      []string          `json:"obs,omitempty"`
	Covers   []string          `json:"covers,omitempty"`
	Threads  int               `json:"threads,omitempty"`
	Note     string            `json:"note,omitempty"`
	Tier     *TierSpec         `json:"tier,omitempty"`
	Scaled   []ScaledConst     `json:"scaled,omitempty"`
}

func writeReplayFile(path string, spec *Spec, run *RunSpec, ts *TierSpec, f *Finding) {
	rf := replayFile{Property: spec.Property, Run: run.Name, Pkg: run.Pkg, Entry: run.Entry, Kind: f.Kind, Label: f.Label, Class: f.Class,
		Values: f.Values, Params: ts.Params, Schedule: f.Decisions, Choices: f.Choices, Threads: f.Threads, Note: f.Msg, Tier: ts, Scaled: run.Scaled}
	if rf.Values == nil {
		rf.Values = map[string]string{}
	}
	data, _ := json.MarshalIndent(rf, "", " ")
	os.WriteFile(path, data, 0o644)
}

// nativeReplay runs `go test -overlay` in the repository with the harness and a
// generated TestVerifReplay; target is a replay file or a directory of them.
func nativeReplay(spec *Spec, run *RunSpec, pkgName, target, workDir string, race bool, timeoutMS int) (map[string][2]string, string, error) {
	ov, _, err := harnessOverlay(run, workDir)
	if err != nil {
		return nil, "", err
	}
	// entries of this package that exist in the spec
	entries := map[string]bool{}
	for _, r := range spec.Runs {
		if r.Pkg == run.Pkg {
			entries[r.Entry] = true
		}
	}
	var names []string
	for n := range entries {
		names = append(names, n)
	}
	sort.Strings(names)
	var sb strings.Builder
	fmt.Fprintf(&sb, "//go:build verif\n\npackage %s\n\nimport (\n\t\"testing\"\n\n\trt \"%s\"\n)\n\nfunc TestVerifReplay(t *testing.T) {\n\trt.Replay(t, map[string]func(){\n", pkgName, rtPkg)
	for _, n := range names {
		fmt.Fprintf(&sb, "\t\t%q: %s,\n", n, n)
	}
	sb.WriteString("\t})\n}\n")
	testFile := filepath.Join(workDir, "zz_verif_replay_"+pkgName+"_test.go")
	if err := os.WriteFile(testFile, []byte(sb.String()), 0o644); err != nil {
		return nil, "", err
	}
	pkgDir := strings.TrimPrefix(run.Pkg, "./")
	ov[filepath.Join(repoDir, pkgDir, "zz_verif_replay_test.go")] = testFile
	ovData, _ := json.Marshal(map[string]interface{}{"Replace": ov})
	ovFile := filepath.Join(workDir, "overlay_"+run.Name+".json")
	os.WriteFile(ovFile, ovData, 0o644)
	args := []string{"test", "-tags", "verif", "-vet=off", "-count=1", "-overlay", ovFile, "-run", "^TestVerifReplay$", "-v", "-timeout", "10m"}
	if race {
		args = append(args, "-race")
	}
	args = append(args, run.Pkg)
	cmd := exec.Command("go", args...)
	cmd.Dir = repoDir
	cmd.Env = append(os.Environ(), "GOFLAGS=-mod=mod", "GOPROXY=off", "GOSUMDB=off", "GOTOOLCHAIN=local", "VERIF_REPLAY="+target,
		"VERIF_REPLAY_TIMEOUT_MS="+strconv.Itoa(timeoutMS))
	out, runErr := cmd.CombinedOutput()
	txt := string(out)
	results := map[string][2]string{}
	re := regexp.MustCompile(`VERIF-REPLAY file=(\S+) result=(\S+) detail=(".*")`)
	for _, m := range re.FindAllStringSubmatch(txt, -1) {
		d, _ := strconv.Unquote(m[3])
		results[m[1]] = [2]string{m[2], d}
	}
	if race && strings.Contains(txt, "WARNING: DATA RACE") {
		for k := range results {
			results[k] = [2]string{"reproduced", "race detector: DATA RACE"}
		}
		if len(results) == 0 {
			results[target] = [2]string{"reproduced", "race detector: DATA RACE"}
		}
	}
	if len(results) == 0 && runErr != nil {
		// the test binary died (fatal error, unrecovered panic in another goroutine, build error)
		if strings.Contains(txt, "[build failed]") || strings.Contains(txt, "cannot find package") {
			return results, txt, fmt.Errorf("native replay build failed")
		}
		results[target] = [2]string{"crashed", firstLines(txt, 6)}
	}
	return results, txt, nil
}

func firstLines(s string, n int) string {
	ls := strings.Split(s, "\n")
	if len(ls) > n {
		ls = ls[:n]
	}
	return strings.Join(ls, " | ")
}

// confirmFinding replays a counterexample: natively when the harness allows it,
// otherwise (or in addition, for schedule-dependent events) by re-executing the
// real SSA concretely in the engine with every input pinned to the model.
func confirmFinding(spec *Spec, run *RunSpec, ts *TierSpec, f *Finding, path string, res *RunResult, workDir string, noNative bool) (string, bool) {
	native := !run.NoNative && !noNative && (f.Threads <= 1 || f.Kind == "race" || f.Kind == "panic" || f.Kind == "assert" || f.Kind == "deadlock")
	if native && f.Threads > 1 && f.Kind != "race" && !run.Race {
		// schedule-dependent: native replay cannot force the schedule; use the pinned re-execution
		native = false
	}
	if native {
		r, txt, err := nativeReplay(spec, run, res.PkgName, path, workDir, f.Kind == "race" || run.Race, 5000)
		if err != nil {
			return "native replay failed to build: " + firstLines(txt, 8), false
		}
		for _, v := range r {
			switch v[0] {
			case "reproduced":
				return "natively (go test -overlay): " + v[1], true
			case "crashed":
				if f.Kind == "panic" || f.Kind == "race" {
					return "natively (process crashed): " + v[1], true
				}
				return "native replay crashed: " + v[1], false
			case "panic":
				if f.Kind == "panic" {
					return "natively: panic " + v[1], true
				}
				return "native replay panicked: " + v[1], false
			default:
				return "native replay: " + v[0] + " " + v[1], false
			}
		}
		return "native replay produced no result line", false
	}
	ok, how := pinnedReplay(spec, run, ts, f, workDir)
	return how, ok
}

// pinnedReplay re-executes the harness in the interpreter with all inputs fixed
// to the counterexample's values and the recorded decision sequence.
func pinnedReplay(spec *Spec, run *RunSpec, ts *TierSpec, f *Finding, workDir string) (bool, string) {
	ov, _, err := harnessOverlay(run, workDir)
	if err != nil {
		return false, err.Error()
	}
	ld, err := loadProgram(run.Pkg, ov)
	if err != nil {
		return false, err.Error()
	}
	var harness *ssa.Function
	for _, sp := range ld.spkgs {
		if sp != nil && sp.Pkg.Path() == ld.pkgs[0].PkgPath {
			if fn := sp.Func(run.Entry); fn != nil {
				harness = fn
			}
		}
	}
	if harness == nil {
		return false, "no harness"
	}
	known := map[string]bool{}
	if f.Class != "" {
		known[f.Class] = true
	}
	e := newEngine(ld.prog, run, ts, known, 0)
	defer e.closeSolvers()
	e.initAllow[harness.Pkg.Pkg.Path()] = true
	e.initAllow[rtPkg] = true
	e.pinned = f.Values
	if e.pinned == nil {
		e.pinned = map[string]string{}
	}
	e.pinMode = true
	e.pinChoices = f.Choices
	e.runPath(harness, nil)
	if os.Getenv("GOSYM_DEBUG") != "" {
		fmt.Fprintf(os.Stderr, "pinned replay: ends=%v findings=%d\n", e.ends, len(e.findings))
		for _, g := range e.findings {
			fmt.Fprintf(os.Stderr, "  %s %q class=%q\n", g.Kind, g.Label, g.Class)
		}
	}
	for _, g := range e.findings {
		if g.Kind == f.Kind && g.Label == f.Label {
			return true, fmt.Sprintf("by concrete re-execution of the real SSA under the recorded schedule (%d decisions, %d threads)", len(f.Decisions), f.Threads)
		}
	}
	return false, "pinned re-execution did not reach the same event"
}

func validateWitnesses(spec *Spec, run *RunSpec, ts *TierSpec, res *RunResult, workDir string) (int, []string) {
	dir := filepath.Join(workDir, "witness_"+run.Name)
	os.MkdirAll(dir, 0o755)
	for i, w := range res.Witnesses {
		rf := replayFile{Property: spec.Property, Run: run.Name, Pkg: run.Pkg, Entry: run.Entry, Kind: "witness", Values: w.Values, Params: ts.Params,
			Schedule: w.Decisions, Obs: w.Obs, Covers: w.Covers, Threads: w.Threads}
		if run.Threads || w.Threads > 1 {
			rf.Obs = nil // schedule dependent
			rf.Covers = nil
		}
		data, _ := json.MarshalIndent(rf, "", " ")
		os.WriteFile(filepath.Join(dir, fmt.Sprintf("w%03d.json", i)), data, 0o644)
	}
	r, txt, err := nativeReplay(spec, run, res.PkgName, dir, workDir, false, 5000)
	if err != nil {
		return 0, []string{"native witness replay failed to build: " + firstLines(txt, 12)}
	}
	ok := 0
	var bad []string
	for file, v := range r {
		switch v[0] {
		case "match":
			ok++
		case "skipped":
			bad = append(bad, filepath.Base(file)+": native run rejected the model (assumption violated)")
		default:
			data, _ := os.ReadFile(file)
			keep := filepath.Join(verifDir, "evidence", "replay", spec.Property+"-"+run.Name+"-witness-mismatch-"+filepath.Base(file))
			os.WriteFile(keep, data, 0o644)
			bad = append(bad, fmt.Sprintf("%s: %s %s (kept as %s)", filepath.Base(file), v[0], v[1], keep))
		}
	}
	if len(r) == 0 {
		bad = append(bad, "no result lines from the native witness replay: "+firstLines(txt, 12))
	}
	return ok, bad
}

func cmdReplay(args []string) int {
	if len(args) < 1 {
		usage()
	}
	data, err := os.ReadFile(args[0])
	if err != nil {
		fmt.Fprintln(os.Stderr, err)
		return 2
	}
	var rf replayFile
	if err := json.Unmarshal(data, &rf); err != nil {
		fmt.Fprintln(os.Stderr, err)
		return 2
	}
	spec, err := loadSpec(rf.Property)
	if err != nil {
		fmt.Fprintln(os.Stderr, err)
		return 2
	}
	var run *RunSpec
	for i := range spec.Runs {
		if spec.Runs[i].Name == rf.Run {
			run = &spec.Runs[i]
		}
	}
	if run == nil {
		fmt.Fprintln(os.Stderr, "no such run in the specification:", rf.Run)
		return 2
	}
	workDir := filepath.Join(verifDir, ".work", "replay-"+rf.Property)
	os.MkdirAll(workDir, 0o755)
	defer os.RemoveAll(workDir)
	ts := rf.Tier
	if ts == nil {
		ts = &TierSpec{Params: rf.Params}
	}
	f := &Finding{Kind: rf.Kind, Label: rf.Label, Class: rf.Class, Values: rf.Values, Decisions: rf.Schedule, Choices: rf.Choices, Threads: rf.Threads}
	// package name from a quick load
	ov, _, _ := harnessOverlay(run, workDir)
	ld, err := loadProgram(run.Pkg, ov)
	if err != nil {
		fmt.Fprintln(os.Stderr, err)
		return 2
	}
	res := &RunResult{PkgName: ld.pkgs[0].Name}
	how, ok := confirmFinding(spec, run, ts, f, args[0], res, workDir, false)
	if ok {
		fmt.Printf("REPRODUCED property=%s %s %q: %s\n", rf.Property, rf.Kind, rf.Label, how)
		return 1
	}
	fmt.Printf("NOT-REPRODUCED property=%s %s %q: %s\n", rf.Property, rf.Kind, rf.Label, how)
	return 0
}

// demoteMislabelled: a finding attributed to a known class whose label does not
// match the class's label patterns is not the known finding: it is reported as a
// violation outside every class.
func demoteMislabelled(res *RunResult, knownLabels map[string][]string) {
	for _, f := range res.Findings {
		if f.Class == "" {
			continue
		}
		pats := knownLabels[f.Class]
		if len(pats) == 0 {
			continue
		}
		ok := false
		for _, p := range pats {
			if strings.Contains(f.Label, p) {
				ok = true
			}
		}
		if !ok {
			f.Class = ""
		}
	}
}

// crossCheckFinal repeats a decided final (assertion) query on a second solver
// (z3 4.8.12) with the whole path condition; a disagreement is an engine error.
func crossCheckFinal(e *Engine, c *Term, r string) {
	if e.pathFP {
		return // floating-point paths are decided by cvc5 only (z3 needs minutes per query)
	}
	// the second solver is much slower on ite-heavy queries: the cross-check never
	// runs past the run's deadline and uses at most a fixed share of wall time per
	// worker; the evidence reports how many final queries were actually repeated
	if !e.deadline.IsZero() && time.Now().After(e.deadline) {
		return
	}
	if e.xBudget > 0 && e.xSpent > e.xBudget {
		return
	}
	if e.xSolver == nil {
		e.xSolver = NewSolver("z3")
	}
	t0 := time.Now()
	defer func() { e.xSpent += time.Since(t0) }()
	xs := e.xSolver
	xs.Reset()
	for _, a := range e.pc {
		xs.Assert(a)
	}
	// z3 4.8.12 does not always honour its soft time-out: a watchdog kills the
	// process after 45 s, the query counts as not cross-checked and the worker
	// stops cross-checking
	done := make(chan string, 1)
	go func() {
		defer func() {
			if recover() != nil {
				done <- "unknown"
			}
		}()
		r2, _ := xs.Check(c, nil)
		done <- r2
	}()
	var r2 string
	select {
	case r2 = <-done:
	case <-time.After(45 * time.Second):
		xs.Kill()
		<-done
		e.xSolver = nil
		e.xSpent = e.xBudget + time.Hour
		return
	}
	e.CrossChecked++
	if r2 != r && r2 != "unknown" {
		e.CrossMismatch++
		e.engineErrors = append(e.engineErrors, "solver disagreement on a final query: "+e.solver.name+"="+r+" z3-4.8.12="+r2)
		e.ends["engine-error"]++
		e.ends["engine-error: solver disagreement on a final assertion query"]++
	}
}
