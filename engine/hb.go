package main

// Happens-before monitor (vector clocks) over interpreted memory accesses.

import (
	"fmt"
	"strings"

	"golang.org/x/tools/go/ssa"
)

type vclock map[int]int

func (v vclock) copy() vclock {
	c := vclock{}
	for k, x := range v {
		c[k] = x
	}
	return c
}
func (v vclock) join(o vclock) {
	for k, x := range o {
		if x > v[k] {
			v[k] = x
		}
	}
}

type access struct {
	tid, clk int
	where    string
	in       ssa.Instruction
	stack    string
}

func (e *Engine) accWhere(a *access) string {
	if a.where != "" {
		return a.where
	}
	if a.in == nil {
		return "?"
	}
	pos := e.prog.Fset.Position(a.in.Pos())
	fn := ""
	if a.in.Parent() != nil {
		fn = a.in.Parent().String()
	}
	if pos.IsValid() {
		return fmt.Sprintf("%s (%s:%d)", fn, pos.Filename[strings.LastIndex(pos.Filename, "/")+1:], pos.Line)
	}
	return fn
}

type cellHist struct {
	w  *access
	rs map[int]*access
}

func (e *Engine) tvc(t *thread) vclock {
	if t.vc == nil {
		t.vc = vclock{t.id: 1}
	}
	return t.vc
}

func (e *Engine) tick() { v := e.tvc(e.cur); v[e.cur.id]++ }

// release/acquire on a sync object identified by key
func (e *Engine) hbRelease(key interface{}) {
	v := e.tvc(e.cur)
	o, ok := e.syncVC[key]
	if !ok {
		o = vclock{}
		e.syncVC[key] = o
	}
	o.join(v)
	e.tick()
}
func (e *Engine) hbAcquire(key interface{}) {
	if o, ok := e.syncVC[key]; ok {
		e.tvc(e.cur).join(o)
	}
}

func (e *Engine) hbAccess(key interface{}, write bool, where string) {
	if len(e.threads) <= 1 || e.cur == nil {
		return
	}
	// accesses performed by harness and model code (zz_verif files, the intrinsics
	// package) are not monitored: the third-party services they stand for are
	// internally synchronised; repository code is always monitored
	if where == "" && e.curInstr != nil && e.curInstr.Parent() != nil && e.isHarnessFn(e.curInstr.Parent()) {
		return
	}
	h, ok := e.cells[key]
	if !ok {
		h = &cellHist{rs: map[int]*access{}}
		e.cells[key] = h
	}
	// a cell that another thread has touched is shared: accesses to it are
	// scheduling points (spike: dynamic detection; the design marks escape at `go`)
	if e.memYield && !e.aborting {
		// shared unless allocated by an Alloc instruction after threads were spawned
		pv, isCell := key.(*value)
		if _, local := e.localCells[pv]; !isCell || !local {
			e.yield()
		}
	}
	v := e.tvc(e.cur)
	me := &access{tid: e.cur.id, clk: v[e.cur.id], where: where, in: e.curInstr}
	if _, isMap := key.(*mapV); isMap {
		me.stack = e.stackStr()
	}
	conflict := func(a *access) bool { return a != nil && a.tid != me.tid && a.clk > v[a.tid] }
	if conflict(h.w) {
		e.race(h.w, me, write)
	}
	if write {
		for _, r := range h.rs {
			if conflict(r) {
				e.race(r, me, true)
			}
		}
		h.w = me
		h.rs = map[int]*access{}
	} else {
		h.rs[me.tid] = me
	}
}

func (e *Engine) race(a, b *access, bWrite bool) {
	x, y := e.accWhere(a), e.accWhere(b)
	if y < x {
		x, y = y, x
	}
	// the label names the two functions; the exact positions go to the message
	msg := fmt.Sprintf("data race between %s and %s", stripPos(x), stripPos(y))
	detail := x + " / " + y
	if !e.racesSeen[msg] {
		e.racesSeen[msg] = true
		if e.inClassify {
			return
		}
		e.inClassify = true
		class := e.classifyEvent()
		_, model := e.check(TrueT, true)
		e.inClassify = false
		e.addFinding("race", msg, class, fmt.Sprintf("%s; T%d [%s] vs T%d [%s]", detail, a.tid, a.stack, b.tid, e.stackStr()), model)
	}
}

func stripPos(s string) string {
	if i := strings.LastIndex(s, " ("); i > 0 && strings.HasSuffix(s, ")") {
		return s[:i]
	}
	return s
}
