package main

// Harness intrinsics (package zzverifrt) as seen by the engine, assertion
// checking with known-finding classes, and findings.

import (
	"encoding/hex"
	"fmt"
	"os"
	"sort"
	"strconv"
	"strings"
	"sync/atomic"
)

type nondetInfo struct {
	name string // harness-level name
	kind string // int u64 bool byte float bytes
	cap  int
	vars []*Term // scalar: 1 var; bytes: cap byte vars followed by the length var
}

// Finding is one reportable event on one path.
type Finding struct {
	Kind      string // assert | panic | deadlock | race | unknown
	Label     string
	Class     string // known-finding class; "" = outside every listed class
	Msg       string
	Values    map[string]string
	Decisions []int
	Choices   []int
	Threads   int
	Run       string
}

func (f *Finding) key() string { return f.Kind + "|" + f.Label + "|" + f.Class }

func (e *Engine) newNondet(name, kind string, s Sort) *Term {
	if ni, ok := e.nondetByName[name]; ok {
		return ni.vars[0]
	}
	v := e.ctx.Var(sanitize(name), s)
	ni := &nondetInfo{name: name, kind: kind, vars: []*Term{v}}
	e.nondetByName[name] = ni
	e.nondetList = append(e.nondetList, ni)
	e.nondets = append(e.nondets, v)
	if e.pinMode {
		pv := e.pinned[name]
		var c *Term
		switch kind {
		case "int":
			x, _ := strconv.ParseInt(pv, 10, 64)
			c = BV(64, uint64(x))
		case "u64":
			x, _ := strconv.ParseUint(pv, 10, 64)
			c = BV(64, x)
		case "byte":
			x, _ := strconv.ParseUint(pv, 10, 8)
			c = BV(8, x)
		case "bool":
			c = BoolT(pv == "true")
		case "float":
			x, _ := strconv.ParseUint(pv, 16, 64)
			c = &Term{Op: "const", S: FP64S, Const: true, V: x}
		}
		if c != nil {
			e.pinModel[v.Name] = c.V
			e.addAssume(Eq(v, c))
		}
	}
	return v
}

func (e *Engine) newNondetBytes(name string, c int) *bytesV {
	if ni, ok := e.nondetByName[name]; ok {
		arr := &byteArr{b: append([]*Term{}, ni.vars[:ni.cap]...)}
		return &bytesV{arr: arr, n: ni.vars[ni.cap], cap: ni.cap}
	}
	ni := &nondetInfo{name: name, kind: "bytes", cap: c}
	arr := &byteArr{b: make([]*Term, c)}
	for i := range arr.b {
		arr.b[i] = e.ctx.Var(sanitize(fmt.Sprintf("%s_%d", name, i)), BVS(8))
		ni.vars = append(ni.vars, arr.b[i])
	}
	n := e.ctx.Var(sanitize(name+"_len"), BVS(64))
	ni.vars = append(ni.vars, n)
	e.nondets = append(e.nondets, ni.vars...)
	e.nondetByName[name] = ni
	e.nondetList = append(e.nondetList, ni)
	e.addAssume(Ule(n, BV(64, uint64(c))))
	if e.pinMode {
		bs, _ := hex.DecodeString(e.pinned[name])
		if len(bs) > c {
			bs = bs[:c]
		}
		e.pinModel[n.Name] = uint64(len(bs))
		e.addAssume(Eq(n, BV(64, uint64(len(bs)))))
		for i := range arr.b {
			var b byte
			if i < len(bs) {
				b = bs[i]
			}
			e.pinModel[arr.b[i].Name] = uint64(b)
			e.addAssume(Eq(arr.b[i], BV(8, uint64(b))))
		}
	}
	return &bytesV{arr: arr, n: n, cap: c}
}

// assignment renders a solver model as harness-level values (every nondet of
// the path gets a value; variables the solver did not see are unconstrained and
// take 0).
func (e *Engine) assignment(m map[string]uint64) map[string]string {
	out := map[string]string{}
	for _, ni := range e.nondetList {
		switch ni.kind {
		case "int":
			out[ni.name] = strconv.FormatInt(int64(m[ni.vars[0].Name]), 10)
		case "u64":
			out[ni.name] = strconv.FormatUint(m[ni.vars[0].Name], 10)
		case "byte":
			out[ni.name] = strconv.FormatUint(m[ni.vars[0].Name]&0xff, 10)
		case "bool":
			out[ni.name] = strconv.FormatBool(m[ni.vars[0].Name]&1 == 1)
		case "float":
			out[ni.name] = strconv.FormatUint(m[ni.vars[0].Name], 16)
		case "bytes":
			n := int(m[ni.vars[ni.cap].Name])
			if n > ni.cap {
				n = ni.cap
			}
			bs := make([]byte, n)
			for i := 0; i < n; i++ {
				bs[i] = byte(m[ni.vars[i].Name])
			}
			out[ni.name] = hex.EncodeToString(bs)
		}
	}
	return out
}

func (e *Engine) setupRT() {
	x := e.ext
	x[rtPkg+".Param"] = func(e *Engine, fr *frame, a []value) value {
		if v, ok := e.params[mustStr(a[0])]; ok {
			return BV(64, uint64(int64(v)))
		}
		return a[1]
	}
	x[rtPkg+".Int"] = func(e *Engine, fr *frame, a []value) value {
		v := e.newNondet(mustStr(a[0]), "int", BVS(64))
		e.addAssume(And(Sle(a[1].(*Term), v), Sle(v, a[2].(*Term))))
		return v
	}
	x[rtPkg+".Choice"] = func(e *Engine, fr *frame, a []value) value {
		v := e.newNondet(mustStr(a[0]), "int", BVS(64))
		e.addAssume(And(Sle(BV(64, 0), v), Slt(v, a[1].(*Term))))
		return v
	}
	x[rtPkg+".Uint64"] = func(e *Engine, fr *frame, a []value) value { return e.newNondet(mustStr(a[0]), "u64", BVS(64)) }
	x[rtPkg+".Bool"] = func(e *Engine, fr *frame, a []value) value { return e.newNondet(mustStr(a[0]), "bool", BoolS) }
	x[rtPkg+".Byte"] = func(e *Engine, fr *frame, a []value) value { return e.newNondet(mustStr(a[0]), "byte", BVS(8)) }
	x[rtPkg+".Float01"] = func(e *Engine, fr *frame, a []value) value {
		v := e.newNondet(mustStr(a[0]), "float", FP64S)
		e.addAssume(And(FLe(FPConst(0), v), FLt(v, FPConst(1))))
		return v
	}
	symBytes := func(e *Engine, fr *frame, a []value) value {
		return e.newNondetBytes(mustStr(a[0]), int(a[1].(*Term).V))
	}
	x[rtPkg+".Bytes"] = symBytes
	x[rtPkg+".String"] = symBytes
	x[rtPkg+".Assume"] = func(e *Engine, fr *frame, a []value) value {
		if !e.decideAssume(a[0].(*Term)) {
			e.end("assume", "")
		}
		return nil
	}
	x[rtPkg+".Assert"] = func(e *Engine, fr *frame, a []value) value {
		e.checkAssert(a[0].(*Term), mustStr(a[1]))
		return nil
	}
	x[rtPkg+".Unreachable"] = func(e *Engine, fr *frame, a []value) value {
		e.checkAssert(FalseT, mustStr(a[0]))
		return nil
	}
	x[rtPkg+".Cover"] = func(e *Engine, fr *frame, a []value) value { e.covers[mustStr(a[0])] = true; return nil }
	x[rtPkg+".Known"] = func(e *Engine, fr *frame, a []value) value {
		id := mustStr(a[0])
		if e.knownIDs[id] {
			if old, ok := e.knowns[id]; ok {
				e.knowns[id] = Or(old, a[1].(*Term))
			} else {
				e.knowns[id] = a[1].(*Term)
			}
		}
		return nil
	}
	x[rtPkg+".Observe"] = func(e *Engine, fr *frame, a []value) value {
		rec := obsRec{label: mustStr(a[0])}
		if sl, ok := a[1].(*sliceV); ok && sl.arr != nil {
			for _, v := range (*sl.arr)[sl.off : sl.off+sl.len] {
				rec.vals = append(rec.vals, v.(iface).v)
			}
		}
		e.obs = append(e.obs, rec)
		return nil
	}
	x[rtPkg+".Stub"] = func(e *Engine, fr *frame, a []value) value {
		name := mustStr(a[0])
		if strings.Contains(name, repoMod+"/") && !strings.Contains(name, rtPkg) {
			panic("rt.Stub must not replace repository code: " + name)
		}
		e.stubs[name] = a[1].(iface).v
		return nil
	}
	x[rtPkg+".Debug"] = func(e *Engine, fr *frame, a []value) value {
		if os.Getenv("GOSYM_DEBUG") == "" {
			return nil
		}
		msg := mustStr(a[0])
		for _, v := range e.varargs(a[1]) {
			g, sym := e.fmtArg(v)
			if sym != nil {
				msg += " <symbolic>"
			} else {
				msg += fmt.Sprintf(" %v", g)
			}
		}
		fmt.Fprintln(os.Stderr, "rt.Debug:", msg)
		return nil
	}
	x[rtPkg+".OnExit"] = func(e *Engine, fr *frame, a []value) value { e.objs["onexit"] = a[0]; return nil }
	x[rtPkg+".Daemon"] = func(e *Engine, fr *frame, a []value) value { e.cur.daemon = true; return nil }
	x[rtPkg+".Yield"] = func(e *Engine, fr *frame, a []value) value { e.yield(); return nil }
	x[rtPkg+".Quiesce"] = func(e *Engine, fr *frame, a []value) value { return BV(64, uint64(e.quiesce())) }
	x[rtPkg+".Itoa"] = func(e *Engine, fr *frame, a []value) value {
		t := a[0].(*Term)
		if !t.Const {
			e.end("unsupported", "rt.Itoa of a symbolic value")
		}
		return constStrV(strconv.FormatInt(sext(t.V, 64), 10))
	}
}

type obsRec struct {
	label string
	vals  []value
}

// renderObs evaluates the observation log under a model.
func (e *Engine) renderObs(m map[string]uint64) ([]string, bool) {
	memo := map[*Term]uint64{}
	var out []string
	for _, o := range e.obs {
		s := o.label
		for _, v := range o.vals {
			switch v := v.(type) {
			case *Term:
				x, ok := evalTerm(v, m, memo)
				if !ok {
					return nil, false
				}
				switch v.S.K {
				case 0:
					s += " " + strconv.FormatBool(x == 1)
				default:
					s += " " + strconv.FormatInt(sext(x, v.S.W), 10)
				}
			case *bytesV:
				n, ok := evalTerm(v.n, m, memo)
				if !ok || int(n) > v.cap {
					return nil, false
				}
				bs := make([]byte, n)
				for i := range bs {
					c, ok := evalTerm(v.arr.b[v.off+i], m, memo)
					if !ok {
						return nil, false
					}
					bs[i] = byte(c)
				}
				s += " " + hex.EncodeToString(bs)
			default:
				return nil, false
			}
		}
		out = append(out, s)
	}
	return out, true
}

func (e *Engine) addAssume(c *Term) {
	if c.Const {
		if c.V == 0 {
			e.end("assume", "")
		}
		return
	}
	if e.model != nil {
		if v, ok := e.evalModel(c); !ok || v != 1 {
			e.setModel(nil)
		}
	}
	e.addFact(c, true)
}

// decideAssume: an assumption restricts the path; no fork for the false side.
func (e *Engine) decideAssume(c *Term) bool {
	if v, ok := e.known(c); ok {
		return v
	}
	if e.model != nil {
		if v, ok := e.evalModel(c); ok && v == 1 {
			e.addFact(c, true)
			return true
		}
	}
	r, m := e.check(c, true)
	if r == "unsat" {
		return false
	}
	if r == "sat" {
		e.setModel(m)
	} else {
		e.setModel(nil)
	}
	e.addFact(c, true)
	return true
}

func (e *Engine) setModel(m map[string]uint64) {
	e.model = m
	e.modelMemo = map[*Term]uint64{}
}

func (e *Engine) evalModel(c *Term) (uint64, bool) {
	if e.modelMemo == nil {
		e.modelMemo = map[*Term]uint64{}
	}
	return evalTerm(c, e.model, e.modelMemo)
}

func (e *Engine) sortedKnowns() []string {
	var ks []string
	for id := range e.knowns {
		ks = append(ks, id)
	}
	sort.Strings(ks)
	return ks
}

func (e *Engine) addFinding(kind, label, class, msg string, model map[string]uint64) {
	f := &Finding{Kind: kind, Label: label, Class: class, Msg: msg, Decisions: append([]int{}, e.decisions...), Choices: append([]int{}, e.choices...), Threads: len(e.threads)}
	if model != nil {
		f.Values = e.assignment(model)
	}
	e.findings = append(e.findings, f)
	if class == "" && kind != "unknown" && e.violCounter != nil {
		atomic.AddInt64(e.violCounter, 1)
	}
}

// checkAssert asks, for the negated assertion under the path condition:
// (a) is there a violating assignment outside every listed known class?
// (b) for each listed class, is there one inside it and outside all others?
// The path then continues under the assumption that the assertion held.
func (e *Engine) checkAssert(c *Term, label string) {
	e.assertsChecked++
	if v, ok := e.known(c); ok && v {
		return
	}
	neg := Not(c)
	ids := e.sortedKnowns()
	outside := neg
	for _, id := range ids {
		outside = And(outside, Not(e.knowns[id]))
	}
	r, model := e.checkFinal(outside)
	switch r {
	case "sat":
		e.addFinding("assert", label, "", "", model)
	case "unknown":
		e.addFinding("unknown", label, "", "solver returned unknown on the final assertion query", nil)
	}
	for _, id := range ids {
		in := And(neg, e.knowns[id])
		for _, o := range ids {
			if o != id {
				in = And(in, Not(e.knowns[o]))
			}
		}
		if r, model := e.checkFinal(in); r == "sat" {
			e.addFinding("assert", label, id, "", model)
		}
	}
	if !e.decideAssume(c) {
		e.end("assertion-violated", "")
	}
}

// checkFinal is a final (assertion) query; in the thorough tier it is repeated
// on the cross-check solvers and a disagreement is an engine error.
func (e *Engine) checkFinal(c *Term) (string, map[string]uint64) {
	if c.Const && c.V == 0 {
		return "unsat", nil
	}
	r, m := e.check(c, true)
	e.finalQueries++
	if e.crossCheck != nil && (r == "sat" || r == "unsat") {
		e.crossCheck(e, c, r)
	}
	return r, m
}

// classifyEvent attributes a path end that is not an assertion (panic, deadlock,
// race) to a known class iff the path condition implies that class's predicate.
func (e *Engine) classifyEvent() string {
	for _, id := range e.sortedKnowns() {
		k := e.knowns[id]
		if v, ok := e.known(k); ok {
			if v {
				return id
			}
			continue
		}
		if r, _ := e.check(Not(k), false); r == "unsat" {
			return id
		}
	}
	return ""
}

func fmtModel(m map[string]string) string {
	var ks []string
	for k := range m {
		ks = append(ks, k)
	}
	sort.Strings(ks)
	var sb strings.Builder
	for _, k := range ks {
		fmt.Fprintf(&sb, "%s=%s ", k, m[k])
	}
	return sb.String()
}
