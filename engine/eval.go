package main

import "math"

// evalTerm evaluates a term under a model (variable name -> value). ok=false if
// the term contains something the evaluator does not handle (floats).
func evalTerm(t *Term, m map[string]uint64, memo map[*Term]uint64) (uint64, bool) {
	if t.Const {
		return t.V, true
	}
	if v, ok := memo[t]; ok {
		return v, true
	}
	if t.Op == "var" {
		v := m[t.Name] & mask(t.S.W)
		if t.S.K == 0 {
			v = m[t.Name] & 1
		}
		if t.S.K == 2 {
			v = m[t.Name]
		}
		memo[t] = v
		return v, true
	}
	a := make([]uint64, len(t.Args))
	for i, x := range t.Args {
		v, ok := evalTerm(x, m, memo)
		if !ok {
			return 0, false
		}
		a[i] = v
	}
	w := t.S.W
	aw := 0
	if len(t.Args) > 0 {
		aw = t.Args[0].S.W
	}
	var r uint64
	b2u := func(b bool) uint64 {
		if b {
			return 1
		}
		return 0
	}
	switch t.Op {
	case "not":
		r = 1 - a[0]
	case "and":
		r = a[0] & a[1]
	case "or":
		r = a[0] | a[1]
	case "ite":
		if a[0] == 1 {
			r = a[1]
		} else {
			r = a[2]
		}
	case "=":
		r = b2u(a[0] == a[1])
		if len(t.Args) > 0 && t.Args[0].S.K == 2 {
			r = b2u(fl(a[0]) == fl(a[1]))
		}
	case "bvadd":
		r = (a[0] + a[1]) & mask(w)
	case "bvsub":
		r = (a[0] - a[1]) & mask(w)
	case "bvmul":
		r = (a[0] * a[1]) & mask(w)
	case "bvudiv":
		if a[1] == 0 {
			r = mask(w)
		} else {
			r = a[0] / a[1]
		}
	case "bvurem":
		if a[1] == 0 {
			r = a[0]
		} else {
			r = a[0] % a[1]
		}
	case "bvsdiv", "bvsrem":
		return 0, false
	case "bvand":
		r = a[0] & a[1]
	case "bvor":
		r = a[0] | a[1]
	case "bvxor":
		r = a[0] ^ a[1]
	case "bvshl":
		if a[1] >= uint64(w) {
			r = 0
		} else {
			r = (a[0] << a[1]) & mask(w)
		}
	case "bvlshr":
		if a[1] >= uint64(w) {
			r = 0
		} else {
			r = a[0] >> a[1]
		}
	case "bvashr":
		sx := sext(a[0], w)
		if a[1] >= uint64(w) {
			if sx < 0 {
				r = mask(w)
			}
		} else {
			r = uint64(sx>>a[1]) & mask(w)
		}
	case "bvult":
		r = b2u(a[0] < a[1])
	case "bvule":
		r = b2u(a[0] <= a[1])
	case "bvslt":
		r = b2u(sext(a[0], aw) < sext(a[1], aw))
	case "bvsle":
		r = b2u(sext(a[0], aw) <= sext(a[1], aw))
	case "zext":
		r = a[0]
	case "sext":
		r = uint64(sext(a[0], aw)) & mask(w)
	case "extract":
		r = (a[0] >> uint(t.P2)) & mask(t.P1-t.P2+1)
	case "fp.add":
		r = math.Float64bits(fl(a[0]) + fl(a[1]))
	case "fp.sub":
		r = math.Float64bits(fl(a[0]) - fl(a[1]))
	case "fp.mul":
		r = math.Float64bits(fl(a[0]) * fl(a[1]))
	case "fp.div":
		r = math.Float64bits(fl(a[0]) / fl(a[1]))
	case "fp.lt":
		r = b2u(fl(a[0]) < fl(a[1]))
	case "fp.leq":
		r = b2u(fl(a[0]) <= fl(a[1]))
	case "fp.eq":
		r = b2u(fl(a[0]) == fl(a[1]))
	case "to_fp_s":
		r = math.Float64bits(float64(sext(a[0], aw)))
	case "to_fp_u":
		r = math.Float64bits(float64(a[0]))
	case "fp.to_sbv":
		f := fl(a[0])
		if f != f || f >= 9.3e18 || f <= -9.3e18 {
			return 0, false // out of range: unspecified in SMT-LIB
		}
		r = uint64(int64(f)) & mask(w)
	case "fp.to_ubv":
		f := fl(a[0])
		if f != f || f >= 1.8e19 || f < 0 {
			return 0, false
		}
		r = uint64(f) & mask(w)
	default:
		return 0, false
	}
	memo[t] = r
	return r, true
}

func fl(b uint64) float64 { return math.Float64frombits(b) }
