package main

import (
	"fmt"
	"os"
	"sort"
	"strings"

	"golang.org/x/tools/go/ssa"
)

// Witness is a completed, assertion-clean path with a model of its condition;
// it is replayed natively to validate the translator (section 3.5 of DESIGN.md).
type Witness struct {
	Values    map[string]string
	Obs       []string
	Covers    []string
	Decisions []int
	Threads   int
	PCSize    int
}

func (e *Engine) resetPath(prefix []int) {
	e.ctx = NewTermCtx()
	e.pc = nil
	e.threads = []*thread{{id: 0, wake: make(chan struct{}), exited: make(chan struct{}, 1)}}
	e.cur = e.threads[0]
	e.preempts = 0
	e.endReq = nil
	e.mutexes = map[*value]*mutexState{}
	e.onces = map[*value]bool{}
	e.localCells = map[*value]bool{}
	e.ws = map[*value]interface{}{}
	e.syncVC = map[interface{}]vclock{}
	e.cells = map[interface{}]*cellHist{}
	e.racesSeen = map[string]bool{}
	e.wgs = map[*value]*wgState{}
	e.objs = map[interface{}]interface{}{}
	e.setModel(nil)
	e.pathFP = false
	e.fpScanned = 0
	e.started = map[*Solver]bool{}
	e.facts = map[int]bool{}
	e.varRange = map[*Term]rng{}
	e.rangeMemo = map[*Term]rng{}
	e.decisions = nil
	e.stubs = map[string]value{}
	e.inStub = map[string]bool{}
	e.choices = nil
	e.pinModel = map[string]uint64{}
	e.pinMemo = map[*Term]uint64{}
	e.prefix = prefix
	e.steps = 0
	e.depth = 0
	e.nondets = nil
	e.nondetList = nil
	e.nondetByName = map[string]*nondetInfo{}
	e.covers = map[string]bool{}
	e.knowns = map[string]*Term{}
	e.obs = nil
	e.globals = map[*ssa.Global]*value{}
	e.initDone = map[*ssa.Package]bool{}
	e.assertsChecked = 0
	e.clock = 0
	e.timers = nil
	e.timerFires = 0
	e.slept = nil
	e.chanSeq = 0
	e.pathCopier = nil
}

// runPath executes the harness once under the given decision prefix.
func (e *Engine) runPath(h *ssa.Function, prefix []int) {
	e.resetPath(prefix)
	e.Paths++
	defer func() {
		r := recover()
		e.cur = e.threads[0]
		e.abortThreads()
		if e.goPanic != nil {
			gp := e.goPanic
			e.goPanic = nil
			panic(gp)
		}
		kind := "done"
		if r != nil {
			pe, ok := r.(pathEnd)
			if !ok {
				panic(r)
			}
			kind = pe.kind
			e.ends[pe.kind]++
			switch pe.kind {
			case "unsupported", "truncated":
				e.ends[pe.kind+": "+pe.msg]++
			case "panic":
				e.ends["panic: "+pe.msg]++
				class := e.classifyEvent()
				_, model := e.check(TrueT, true)
				e.addFinding("panic", pe.msg, class, "at "+e.lastPanicWhere, model)
			case "deadlock":
				e.ends["deadlock: "+pe.msg]++
				class := e.classifyEvent()
				_, model := e.check(TrueT, true)
				e.addFinding("deadlock", deadlockLabel(pe.msg), class, pe.msg, model)
			}
		}
		if kind == "done" || kind == "exit" {
			e.finishDone()
		}
		for c := range e.covers {
			e.allCovers[c] = true
		}
	}()
	if e.snapshot_ != nil {
		e.restoreSnapshot()
	} else {
		if init := h.Pkg.Func("init"); init != nil {
			e.callFn(init, nil)
		}
		if !e.snapshotUnsafe && !e.pinMode && os.Getenv("GOSYM_NOSNAPSHOT") == "" {
			e.takeSnapshot()
		}
	}
	e.callFn(h, nil)
	if e.endReq != nil {
		panic(*e.endReq)
	}
	e.ends["done"]++
}

// deadlockLabel strips thread numbers so that the same blocking sites give the
// same label on every schedule.
func deadlockLabel(msg string) string {
	parts := strings.Fields(msg)
	var sites []string
	for _, p := range parts {
		if i := strings.Index(p, "@"); i >= 0 && strings.HasPrefix(p, "T") {
			sites = append(sites, p[i+1:])
		}
	}
	sort.Strings(sites)
	if len(sites) == 0 {
		return msg
	}
	return "blocked for ever: " + strings.Join(sites, ", ")
}

func (e *Engine) finishDone() {
	e.DonePaths++
	if e.assertsChecked > 0 && len(e.nondets) > 0 && len(e.pc) > 0 {
		e.Nontrivial++
	}
	if e.witnessQuota <= 0 {
		return
	}
	take := false
	if len(e.witnesses) < e.witnessQuota {
		take = true
	} else if (uint64(e.DonePaths)*2654435761+uint64(e.seed))%97 == 0 {
		take = true
	}
	if !take {
		return
	}
	r, m := e.check(TrueT, true)
	if r != "sat" {
		return
	}
	obs, ok := e.renderObs(m)
	if !ok {
		return
	}
	w := &Witness{Values: e.assignment(m), Obs: obs, Decisions: append([]int{}, e.decisions...), Threads: len(e.threads), PCSize: len(e.pc)}
	if w.Obs == nil {
		w.Obs = []string{}
	}
	for c := range e.covers {
		w.Covers = append(w.Covers, c)
	}
	sort.Strings(w.Covers)
	if len(e.witnesses) < e.witnessQuota {
		e.witnesses = append(e.witnesses, w)
	} else {
		e.witnesses[int(uint64(e.DonePaths)*40503%uint64(len(e.witnesses)))] = w
	}
}

func (e *Engine) noteFunc(fn *ssa.Function) {
	if e.funcsSeen[fn] {
		return
	}
	e.funcsSeen[fn] = true
	if fn.Pkg == nil {
		return
	}
	path := fn.Pkg.Pkg.Path()
	if !strings.HasPrefix(path, repoMod) || path == rtPkg {
		return
	}
	pos := e.prog.Fset.Position(fn.Pos())
	if !pos.IsValid() {
		return
	}
	file := pos.Filename
	base := file[strings.LastIndex(file, "/")+1:]
	if strings.HasPrefix(base, "zz_verif") {
		return
	}
	e.repoFuncs[fmt.Sprintf("%s (%s:%d)", fn.String(), strings.TrimPrefix(file, "/repo/"), pos.Line)] = true
}
