package main

import (
	"fmt"
	"go/types"

	"golang.org/x/tools/go/ssa"
)

type value interface{}

// scalars (bool, ints, floats) are *Term.

type byteArr struct{ b []*Term } // each BV8; capacity = len(b)

// bytesV is a string or a []byte: a window into a byte array with a possibly
// symbolic length and a concrete offset and capacity.
type bytesV struct {
	arr   *byteArr
	off   int
	n     *Term // BV64 length
	cap   int   // capacity counted from off (concrete)
	isNil bool
}

type sliceV struct {
	arr      *[]value
	off      int
	len, cap int
	isNil    bool
}

type structV []value
type arrayV []value

// byteArrayV is a [N]byte (or [N]uint8-based) array value; it shares the cell
// vector representation with byte slices so that arr[:] aliases the array.
type byteArrayV struct{ a *byteArr }
type tuple []value

type iface struct {
	t types.Type
	v value
}

type closure struct {
	fn  *ssa.Function
	env []value
}

type boundMethod struct {
	fn   *ssa.Function
	recv value
}

type mapV struct {
	keys []value
	vals []value
	dead []bool // tombstones keep iteration stable under delete-during-range
}

func (m *mapV) live() int {
	n := 0
	for i := range m.keys {
		if i >= len(m.dead) || !m.dead[i] {
			n++
		}
	}
	return n
}
func (m *mapV) isDead(i int) bool { return i < len(m.dead) && m.dead[i] }

type mapIter struct {
	m *mapV
	i int
}
type strIter struct {
	s *bytesV
	i int
}

// bytePtr is the address of one byte cell; idx may be symbolic.
type bytePtr struct {
	arr *byteArr
	off int
	idx *Term // BV64, relative to off
}

func constStrV(s string) *bytesV {
	a := &byteArr{b: make([]*Term, len(s))}
	for i := 0; i < len(s); i++ {
		a.b[i] = BV(8, uint64(s[i]))
	}
	return &bytesV{arr: a, n: BV(64, uint64(len(s))), cap: len(s)}
}

func (b *bytesV) concreteLen() (int, bool) {
	if b.n.Const {
		return int(b.n.V), true
	}
	return 0, false
}

func (b *bytesV) goString() (string, bool) {
	n, ok := b.concreteLen()
	if !ok {
		return "", false
	}
	bs := make([]byte, n)
	for i := 0; i < n; i++ {
		c := b.arr.b[b.off+i]
		if !c.Const {
			return "", false
		}
		bs[i] = byte(c.V)
	}
	return string(bs), true
}

func intWidth(t types.Type) (w int, signed bool, ok bool) {
	b, isB := t.Underlying().(*types.Basic)
	if !isB {
		return 0, false, false
	}
	switch b.Kind() {
	case types.Int, types.Int64, types.UntypedInt:
		return 64, true, true
	case types.Int8:
		return 8, true, true
	case types.Int16:
		return 16, true, true
	case types.Int32, types.UntypedRune:
		return 32, true, true
	case types.Uint, types.Uint64, types.Uintptr:
		return 64, false, true
	case types.Uint8:
		return 8, false, true
	case types.Uint16:
		return 16, false, true
	case types.Uint32:
		return 32, false, true
	}
	return 0, false, false
}

func isFloat(t types.Type) bool {
	b, ok := t.Underlying().(*types.Basic)
	return ok && (b.Info()&types.IsFloat != 0)
}
func isString(t types.Type) bool {
	b, ok := t.Underlying().(*types.Basic)
	return ok && (b.Info()&types.IsString != 0)
}
func isBool(t types.Type) bool {
	b, ok := t.Underlying().(*types.Basic)
	return ok && (b.Info()&types.IsBoolean != 0)
}
func isByteSlice(t types.Type) bool {
	s, ok := t.Underlying().(*types.Slice)
	if !ok {
		return false
	}
	b, ok := s.Elem().Underlying().(*types.Basic)
	return ok && b.Kind() == types.Uint8
}

func zero(t types.Type) value {
	switch u := t.Underlying().(type) {
	case *types.Basic:
		if w, _, ok := intWidth(t); ok {
			return BV(w, 0)
		}
		if isBool(t) {
			return FalseT
		}
		if isFloat(t) {
			return FPConst(0)
		}
		if isString(t) {
			return constStrV("")
		}
		if u.Kind() == types.UnsafePointer || u.Kind() == types.UntypedNil {
			return (*value)(nil)
		}
		panic("zero: basic " + t.String())
	case *types.Pointer:
		return (*value)(nil)
	case *types.Slice:
		if isByteSlice(t) {
			return &bytesV{n: BV(64, 0), isNil: true, arr: &byteArr{}}
		}
		return &sliceV{isNil: true}
	case *types.Map:
		return (*mapV)(nil)
	case *types.Chan:
		return (*chanObj)(nil)
	case *types.Interface:
		return iface{}
	case *types.Signature:
		return nil
	case *types.Struct:
		s := make(structV, u.NumFields())
		for i := range s {
			s[i] = zero(u.Field(i).Type())
		}
		return s
	case *types.Array:
		if isByteElem(u.Elem()) {
			ba := &byteArr{b: make([]*Term, u.Len())}
			for i := range ba.b {
				ba.b[i] = BV(8, 0)
			}
			return byteArrayV{ba}
		}
		a := make(arrayV, u.Len())
		for i := range a {
			a[i] = zero(u.Elem())
		}
		return a
	case *types.Tuple:
		tp := make(tuple, u.Len())
		for i := range tp {
			tp[i] = zero(u.At(i).Type())
		}
		return tp
	}
	panic("zero: " + t.String())
}

func copyVal(v value) value {
	switch v := v.(type) {
	case structV:
		c := make(structV, len(v))
		for i, f := range v {
			c[i] = copyVal(f)
		}
		return c
	case arrayV:
		c := make(arrayV, len(v))
		for i, f := range v {
			c[i] = copyVal(f)
		}
		return c
	case byteArrayV:
		return byteArrayV{&byteArr{b: append([]*Term(nil), v.a.b...)}}
	}
	return v
}

type chanV struct{}

func describe(v value) string {
	switch v := v.(type) {
	case *Term:
		if v.Const {
			if v.S.K == 1 {
				return fmt.Sprint(sext(v.V, v.S.W))
			}
			return constStr(v)
		}
		return "sym#" + fmt.Sprint(v.id)
	case *bytesV:
		if s, ok := v.goString(); ok {
			return fmt.Sprintf("%q", s)
		}
		return "symstr"
	}
	return fmt.Sprintf("%T", v)
}
