package main

// Environment models beyond the spike's (time, timers, quiescence, ...).

type timerObj struct {
	at    int64
	ch    *chanObj
	fired bool
	fn    value
}

func (e *Engine) setupModels() {}

// quiesce lets every other thread run until none can move; returns the number of
// non-daemon threads that are then still blocked.
func (e *Engine) quiesce() int {
	main := e.cur
	if len(e.threads) > 1 {
		pred := func() bool {
			for _, t := range e.threads {
				if t != main && e.runnable(t) {
					return false
				}
			}
			return true
		}
		if !pred() {
			e.block(pred, "rt.Quiesce")
		}
	}
	n := 0
	for _, t := range e.threads {
		if t != main && !t.done && !t.daemon {
			n++
		}
	}
	return n
}
