package main

import "go/types"

// Environment models beyond the spike's (time, timers, quiescence, ...).

func (e *Engine) setupModels() {
	e.setupWS()
	e.setupDial()
	e.setupUpgrade()
	e.setupFmt()
	e.setupJSON()
	e.setupCtx()
	e.setupTime()
	e.setupAtomic()
	e.setupFlag()
	e.setupSort()
	e.setupTemplate()
	e.setupHTTPRequestModel()
}

// quiesce lets every other thread run until none can move; returns the number of
// non-daemon threads that are then still blocked.
func (e *Engine) quiesce() int {
	main := e.cur
	if len(e.threads) > 1 {
		pred := func() bool {
			for _, t := range e.threads {
				if t != main && e.runnable(t) {
					return false
				}
			}
			return true
		}
		for {
			if !pred() {
				e.block(pred, "rt.Quiesce")
			}
			if !e.fireTimer() {
				break
			}
		}
	}
	n := 0
	for _, t := range e.threads {
		if t != main && !t.done && !t.daemon && !t.killed {
			n++
		}
	}
	return n
}

// ---------------------------------------------------------------------------
// M-ws: a gorilla websocket connection is one end of a pair of FIFO message
// queues with close flags. ReadMessage blocks until a message or close.

type wsEnd struct {
	peer   *wsEnd
	inbox  []tuple // (type, payload) written by the peer
	closed bool    // this end was closed locally
	failed bool    // a read already failed: all later reads fail
	dialed string
	sub    string
}

const wsPkg = "github.com/gorilla/websocket"

func (e *Engine) wsOf(v value) *wsEnd {
	p, _ := v.(*value)
	if p == nil {
		e.rtPanic("nil pointer dereference (websocket.Conn)")
	}
	w, ok := e.ws[p].(*wsEnd)
	if !ok {
		// an unlinked connection: behaves as a connection whose peer never sends and never closes
		w = &wsEnd{}
		w.peer = &wsEnd{peer: w}
		e.ws[p] = w
	}
	return w
}

func (e *Engine) newErr(msg string) value {
	return e.callFn(e.fn("errors", "New"), []value{constStrV(msg)})
}

func (e *Engine) setupWS() {
	x := e.ext
	x[rtPkg+".Link"] = func(e *Engine, fr *frame, a []value) value {
		pa := a[0].(iface).v.(*value)
		pb := a[1].(iface).v.(*value)
		wa, wb := &wsEnd{}, &wsEnd{}
		wa.peer, wb.peer = wb, wa
		e.ws[pa], e.ws[pb] = wa, wb
		return nil
	}
	// CloseWrite: the peer of a will see end-of-stream after the queued messages.
	x[rtPkg+".CloseWrite"] = func(e *Engine, fr *frame, a []value) value {
		w := e.wsOf(a[0].(iface).v)
		e.hbRelease(w)
		w.closed = true
		return nil
	}
	x["(*"+wsPkg+".Conn).WriteMessage"] = func(e *Engine, fr *frame, a []value) value {
		w := e.wsOf(a[0])
		e.yield()
		if w.closed || w.peer.closed {
			return e.newErr("websocket: close sent")
		}
		e.hbRelease(w.peer)
		w.peer.inbox = append(w.peer.inbox, tuple{a[1], e.snapshot(a[2].(*bytesV))})
		return e.errNil()
	}
	x["(*"+wsPkg+".Conn).ReadMessage"] = func(e *Engine, fr *frame, a []value) value {
		w := e.wsOf(a[0])
		e.yield()
		nilBytes := &bytesV{n: BV(64, 0), isNil: true, arr: &byteArr{}}
		if w.failed || w.closed {
			w.failed = true
			return tuple{BV(64, ^uint64(0)), nilBytes, e.newErr("websocket: use of closed connection")}
		}
		if len(w.inbox) == 0 && !w.peer.closed {
			e.block(func() bool { return len(w.inbox) > 0 || w.peer.closed || w.closed }, "websocket ReadMessage")
		}
		e.hbAcquire(w)
		if len(w.inbox) > 0 {
			m := w.inbox[0]
			w.inbox = w.inbox[1:]
			return tuple{m[0], m[1], e.errNil()}
		}
		w.failed = true
		return tuple{BV(64, ^uint64(0)), nilBytes, e.newErr("websocket: close 1006 (abnormal closure): unexpected EOF")}
	}
	// NextReader: the next message as (type, reader over its payload)
	x["(*"+wsPkg+".Conn).NextReader"] = func(e *Engine, fr *frame, a []value) value {
		r := e.ext["(*"+wsPkg+".Conn).ReadMessage"](e, fr, a).(tuple)
		rdT := e.prog.ImportedPackage("io")
		_ = rdT
		if r[2].(iface).t != nil {
			return tuple{r[0], iface{}, r[2]}
		}
		rdr := e.callFn(e.fn("bytes", "NewReader"), []value{r[1]})
		return tuple{r[0], iface{t: types.NewPointer(e.namedType("bytes", "Reader")), v: rdr}, e.errNil()}
	}
	x["(*"+wsPkg+".Conn).Close"] = func(e *Engine, fr *frame, a []value) value {
		w := e.wsOf(a[0])
		e.yield()
		e.hbRelease(w.peer)
		e.hbRelease(w)
		w.closed = true
		return e.errNil()
	}
	x["(*"+wsPkg+".Conn).SetReadDeadline"] = func(e *Engine, fr *frame, a []value) value { return e.errNil() }
	x["(*"+wsPkg+".Conn).SetWriteDeadline"] = func(e *Engine, fr *frame, a []value) value { return e.errNil() }
	x["(*"+wsPkg+".Conn).Subprotocol"] = func(e *Engine, fr *frame, a []value) value { return constStrV(e.wsOf(a[0]).sub) }
	// rt.WSClosed(conn) reports whether the connection was closed locally
	x[rtPkg+".WSClosed"] = func(e *Engine, fr *frame, a []value) value {
		return BoolT(e.wsOf(a[0].(iface).v).closed)
	}
}

// Dial model: records the URL string and header handed to gorilla's dialer and
// returns one end of a fresh M-ws pair (or an error when the harness asked for
// a failing dial). Which host gorilla would resolve from the string is the
// harness's business (it reads the string independently).
type wsDial struct {
	url    *bytesV
	header value
	peer   *value
	local  *value
}

func (e *Engine) setupDial() {
	x := e.ext
	dial := func(e *Engine, urlV, hdr value) value {
		dials, _ := e.objs["wsdials"].([]*wsDial)
		d := &wsDial{url: e.snapshot(urlV.(*bytesV)), header: hdr}
		respT := types.NewPointer(e.namedType("net/http", "Response"))
		connT := e.namedType(wsPkg, "Conn")
		if fail, _ := e.objs["wsdialfail"].(bool); fail {
			e.objs["wsdials"] = append(dials, d)
			return tuple{(*value)(nil), zero(respT), e.newErr("websocket: bad handshake (M-ws: dial failed)")}
		}
		pa, pb := new(value), new(value)
		*pa, *pb = zero(connT), zero(connT)
		wa, wb := &wsEnd{}, &wsEnd{}
		wa.peer, wb.peer = wb, wa
		e.ws[pa], e.ws[pb] = wa, wb
		d.peer = pb
		d.local = pa
		e.objs["wsdials"] = append(dials, d)
		return tuple{pa, zero(respT), e.errNil()}
	}
	x["(*"+wsPkg+".Dialer).Dial"] = func(e *Engine, fr *frame, a []value) value { return dial(e, a[1], a[2]) }
	x["(*"+wsPkg+".Dialer).DialContext"] = func(e *Engine, fr *frame, a []value) value { return dial(e, a[2], a[3]) }
	x[rtPkg+".WSDials"] = func(e *Engine, fr *frame, a []value) value {
		dials, _ := e.objs["wsdials"].([]*wsDial)
		return BV(64, uint64(len(dials)))
	}
	getDial := func(e *Engine, a []value) *wsDial {
		dials, _ := e.objs["wsdials"].([]*wsDial)
		i := int(a[0].(*Term).V)
		if i < 0 || i >= len(dials) {
			e.rtPanic("rt.WSDial*: index out of range")
		}
		return dials[i]
	}
	x[rtPkg+".WSDialURL"] = func(e *Engine, fr *frame, a []value) value { return getDial(e, a).url }
	x[rtPkg+".WSDialHeader"] = func(e *Engine, fr *frame, a []value) value { return getDial(e, a).header }
	x[rtPkg+".WSDialPeer"] = func(e *Engine, fr *frame, a []value) value {
		d := getDial(e, a)
		if d.peer == nil {
			return iface{}
		}
		return iface{t: types.NewPointer(e.namedType(wsPkg, "Conn")), v: d.peer}
	}
	x[rtPkg+".WSDialClosed"] = func(e *Engine, fr *frame, a []value) value {
		d := getDial(e, a)
		if d.local == nil {
			return FalseT
		}
		return BoolT(e.wsOf(d.local).closed)
	}
	x[rtPkg+".WSDialFail"] = func(e *Engine, fr *frame, a []value) value {
		t := a[0].(*Term)
		e.objs["wsdialfail"] = e.decide(t)
		return nil
	}
}

// Upgrade model: gorilla's Upgrader.Upgrade returns the server end of a fresh
// M-ws pair (the harness holds the client end) or fails when the harness asked
// for a failing handshake.
func (e *Engine) setupUpgrade() {
	x := e.ext
	x["(*"+wsPkg+".Upgrader).Upgrade"] = func(e *Engine, fr *frame, a []value) value {
		connT := e.namedType(wsPkg, "Conn")
		if fail, _ := e.objs["wsupgradefail"].(bool); fail {
			return tuple{(*value)(nil), e.newErr("websocket: the client is not using the websocket protocol (M-ws: handshake refused)")}
		}
		pa, pb := new(value), new(value)
		*pa, *pb = zero(connT), zero(connT)
		wa, wb := &wsEnd{}, &wsEnd{}
		wa.peer, wb.peer = wb, wa
		e.ws[pa], e.ws[pb] = wa, wb
		ups, _ := e.objs["wsupgrades"].([]*wsDial)
		e.objs["wsupgrades"] = append(ups, &wsDial{peer: pb, local: pa})
		return tuple{pa, e.errNil()}
	}
	getUp := func(e *Engine, a []value) *wsDial {
		ups, _ := e.objs["wsupgrades"].([]*wsDial)
		i := int(a[0].(*Term).V)
		if i < 0 || i >= len(ups) {
			e.rtPanic("rt.WSUpgrade*: index out of range")
		}
		return ups[i]
	}
	x[rtPkg+".WSUpgrades"] = func(e *Engine, fr *frame, a []value) value {
		ups, _ := e.objs["wsupgrades"].([]*wsDial)
		return BV(64, uint64(len(ups)))
	}
	x[rtPkg+".WSUpgradePeer"] = func(e *Engine, fr *frame, a []value) value {
		return iface{t: types.NewPointer(e.namedType(wsPkg, "Conn")), v: getUp(e, a).peer}
	}
	x[rtPkg+".WSUpgradeClosed"] = func(e *Engine, fr *frame, a []value) value {
		return BoolT(e.wsOf(getUp(e, a).local).closed)
	}
	x[rtPkg+".WSUpgradeFail"] = func(e *Engine, fr *frame, a []value) value {
		e.objs["wsupgradefail"] = e.decide(a[0].(*Term))
		return nil
	}
}
