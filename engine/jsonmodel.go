package main

// M-json: encoding/json Marshal / Unmarshal as an abstract codec.
//
// Marshal converts a Go value (possibly containing symbolic strings and
// numbers) into a value tree. If the whole tree is concrete the real JSON text
// is produced; otherwise an opaque token (a unique concrete byte string) stands
// for the text and the tree is kept in a side table. Unmarshal of a token gives
// the tree back, converted to the destination type following encoding/json's
// rules (field tags, omitempty, float64 for numbers in interface{}, ...);
// Unmarshal of concrete text parses it with the real encoding/json.
// Contract: decode(encode(v)) == v on strings, bools, ints, nil, slices, maps
// with string keys and tagged structs. Outside: number precision beyond 2^53,
// invalid UTF-8, key order, HTML escaping of the text form.

import (
	"encoding/json"
	"fmt"
	"go/types"
	"reflect"
	"sort"
	"strings"

	"golang.org/x/tools/go/ssa"
)

type jnode struct {
	kind string // null bool num str arr obj
	b    *Term  // bool
	n    *Term  // number: BV64 (integer) or FP64
	s    *bytesV
	arr  []*jnode
	keys []*bytesV
	vals []*jnode
}

func (j *jnode) concrete() bool {
	switch j.kind {
	case "null":
		return true
	case "bool":
		return j.b.Const
	case "num":
		return j.n.Const
	case "str":
		_, ok := j.s.goString()
		return ok
	case "arr":
		for _, c := range j.arr {
			if !c.concrete() {
				return false
			}
		}
		return true
	case "obj":
		for i, k := range j.keys {
			if _, ok := k.goString(); !ok || !j.vals[i].concrete() {
				return false
			}
		}
		return true
	}
	return false
}

func (j *jnode) toGo() interface{} {
	switch j.kind {
	case "bool":
		return j.b.V == 1
	case "num":
		if j.n.S.K == 2 {
			return fl(j.n.V)
		}
		return json.Number(fmt.Sprint(sext(j.n.V, 64)))
	case "str":
		s, _ := j.s.goString()
		return s
	case "arr":
		out := make([]interface{}, len(j.arr))
		for i, c := range j.arr {
			out[i] = c.toGo()
		}
		return out
	case "obj":
		out := map[string]interface{}{}
		for i, k := range j.keys {
			s, _ := k.goString()
			out[s] = j.vals[i].toGo()
		}
		return out
	}
	return nil
}

func fromGo(x interface{}) *jnode {
	switch v := x.(type) {
	case nil:
		return &jnode{kind: "null"}
	case bool:
		return &jnode{kind: "bool", b: BoolT(v)}
	case json.Number:
		if i, err := v.Int64(); err == nil && !strings.ContainsAny(string(v), ".eE") {
			return &jnode{kind: "num", n: BV(64, uint64(i))}
		}
		f, _ := v.Float64()
		return &jnode{kind: "num", n: FPConst(f)}
	case float64:
		return &jnode{kind: "num", n: FPConst(v)}
	case string:
		return &jnode{kind: "str", s: constStrV(v)}
	case []interface{}:
		n := &jnode{kind: "arr"}
		for _, c := range v {
			n.arr = append(n.arr, fromGo(c))
		}
		return n
	case map[string]interface{}:
		n := &jnode{kind: "obj"}
		var ks []string
		for k := range v {
			ks = append(ks, k)
		}
		sort.Strings(ks)
		for _, k := range ks {
			n.keys = append(n.keys, constStrV(k))
			n.vals = append(n.vals, fromGo(v[k]))
		}
		return n
	}
	return &jnode{kind: "null"}
}

type jsonField struct {
	idx       int
	name      string
	omitempty bool
	typ       types.Type
}

func jsonFields(st *types.Struct) []jsonField {
	var out []jsonField
	for i := 0; i < st.NumFields(); i++ {
		f := st.Field(i)
		if !f.Exported() {
			continue
		}
		tag := reflect.StructTag(st.Tag(i)).Get("json")
		if tag == "-" {
			continue
		}
		name := f.Name()
		omit := false
		if tag != "" {
			parts := strings.Split(tag, ",")
			if parts[0] != "" {
				name = parts[0]
			}
			for _, p := range parts[1:] {
				if p == "omitempty" {
					omit = true
				}
			}
		}
		out = append(out, jsonField{i, name, omit, f.Type()})
	}
	return out
}

// isEmptyJSON: encoding/json's notion of empty for omitempty; may fork.
func (e *Engine) isEmptyJSON(t types.Type, v value) bool {
	switch x := v.(type) {
	case *Term:
		if x.S.K == 0 {
			return !e.decide(x)
		}
		if x.S.K == 2 {
			return e.decide(Eq(x, FPConst(0)))
		}
		return e.decide(Eq(x, BV(x.S.W, 0)))
	case *bytesV:
		return e.decide(Eq(x.n, BV(64, 0)))
	case *sliceV:
		return x == nil || x.len == 0
	case *mapV:
		return x == nil || x.live() == 0
	case *value:
		return x == nil
	case iface:
		return x.t == nil
	}
	return false
}

func (e *Engine) toJSON(t types.Type, v value) *jnode {
	switch u := t.Underlying().(type) {
	case *types.Basic:
		switch {
		case isString(t):
			return &jnode{kind: "str", s: e.snapshot(v.(*bytesV))}
		case isBool(t):
			return &jnode{kind: "bool", b: v.(*Term)}
		case isFloat(t):
			return &jnode{kind: "num", n: v.(*Term)}
		}
		if w, signed, ok := intWidth(t); ok {
			x := v.(*Term)
			if w < 64 {
				if signed {
					x = SExt(x, 64)
				} else {
					x = ZExt(x, 64)
				}
			}
			return &jnode{kind: "num", n: x}
		}
	case *types.Interface:
		i := v.(iface)
		if i.t == nil {
			return &jnode{kind: "null"}
		}
		return e.toJSON(i.t, i.v)
	case *types.Pointer:
		p := v.(*value)
		if p == nil {
			return &jnode{kind: "null"}
		}
		return e.toJSON(u.Elem(), *p)
	case *types.Slice:
		if isByteSlice(t) {
			b := v.(*bytesV)
			if b.isNil {
				return &jnode{kind: "null"}
			}
			enc := e.callFn(e.prog.LookupMethod(types.NewPointer(e.namedType("encoding/base64", "Encoding")), nil, "EncodeToString"),
				[]value{e.load(e.global(e.globalVar("encoding/base64", "StdEncoding"))), b})
			return &jnode{kind: "str", s: enc.(*bytesV)}
		}
		s := v.(*sliceV)
		if s == nil || s.isNil {
			return &jnode{kind: "null"}
		}
		n := &jnode{kind: "arr", arr: []*jnode{}}
		for i := 0; i < s.len; i++ {
			n.arr = append(n.arr, e.toJSON(u.Elem(), (*s.arr)[s.off+i]))
		}
		return n
	case *types.Array:
		a := v.(arrayV)
		n := &jnode{kind: "arr", arr: []*jnode{}}
		for _, c := range a {
			n.arr = append(n.arr, e.toJSON(u.Elem(), c))
		}
		return n
	case *types.Map:
		m := v.(*mapV)
		if m == nil {
			return &jnode{kind: "null"}
		}
		if !isString(u.Key()) {
			e.end("unsupported", "M-json: map with non-string keys")
		}
		n := &jnode{kind: "obj"}
		for i, k := range m.keys {
			if m.isDead(i) {
				continue
			}
			n.keys = append(n.keys, k.(*bytesV))
			n.vals = append(n.vals, e.toJSON(u.Elem(), m.vals[i]))
		}
		return n
	case *types.Struct:
		s := v.(structV)
		n := &jnode{kind: "obj"}
		for _, f := range jsonFields(u) {
			if f.omitempty && e.isEmptyJSON(f.typ, s[f.idx]) {
				continue
			}
			n.keys = append(n.keys, constStrV(f.name))
			n.vals = append(n.vals, e.toJSON(f.typ, s[f.idx]))
		}
		return n
	}
	e.end("unsupported", "M-json: marshal of "+t.String())
	return nil
}

func (e *Engine) globalVar(pkg, name string) *ssa.Global {
	for _, p := range e.prog.AllPackages() {
		if p.Pkg.Path() == pkg {
			if g, ok := p.Members[name].(*ssa.Global); ok {
				return g
			}
		}
	}
	panic("no global " + pkg + "." + name)
}

type jsonErr struct{ msg string }

// fromJSON converts a tree into a value of type t; old is the existing value
// (structs and maps are merged into, as encoding/json does).
func (e *Engine) fromJSON(j *jnode, t types.Type, old value) (value, *jsonErr) {
	mismatch := func() (value, *jsonErr) {
		return old, &jsonErr{"json: cannot unmarshal " + j.kind + " into Go value of type " + t.String()}
	}
	if j.kind == "null" {
		switch t.Underlying().(type) {
		case *types.Interface, *types.Pointer, *types.Map, *types.Slice:
			return zero(t), nil
		}
		return old, nil
	}
	switch u := t.Underlying().(type) {
	case *types.Basic:
		switch {
		case isString(t):
			if j.kind != "str" {
				return mismatch()
			}
			return e.snapshot(j.s), nil
		case isBool(t):
			if j.kind != "bool" {
				return mismatch()
			}
			return j.b, nil
		case isFloat(t):
			if j.kind != "num" {
				return mismatch()
			}
			if j.n.S.K == 2 {
				return j.n, nil
			}
			return SIntToFP(j.n), nil
		}
		if w, signed, ok := intWidth(t); ok {
			if j.kind != "num" {
				return mismatch()
			}
			x := j.n
			if x.S.K == 2 {
				if !x.Const {
					e.end("unsupported", "M-json: symbolic float into integer")
				}
				f := fl(x.V)
				if f != float64(int64(f)) {
					return mismatch()
				}
				x = BV(64, uint64(int64(f)))
			}
			_ = signed
			return Trunc(x, w), nil
		}
	case *types.Interface:
		if u.NumMethods() != 0 {
			e.end("unsupported", "M-json: unmarshal into non-empty interface")
		}
		strT := types.Typ[types.String]
		anyT := types.NewInterfaceType(nil, nil)
		switch j.kind {
		case "str":
			return iface{t: strT, v: e.snapshot(j.s)}, nil
		case "bool":
			return iface{t: types.Typ[types.Bool], v: j.b}, nil
		case "num":
			n := j.n
			if n.S.K != 2 {
				n = SIntToFP(n)
			}
			return iface{t: types.Typ[types.Float64], v: n}, nil
		case "arr":
			st := types.NewSlice(anyT)
			v, err := e.fromJSON(j, st, zero(st))
			return iface{t: st, v: v}, err
		case "obj":
			mt := types.NewMap(strT, anyT)
			v, err := e.fromJSON(j, mt, (*mapV)(nil))
			return iface{t: mt, v: v}, err
		}
	case *types.Pointer:
		p, _ := old.(*value)
		if p == nil {
			p = new(value)
			*p = zero(u.Elem())
		}
		v, err := e.fromJSON(j, u.Elem(), *p)
		assignInPlace(p, v)
		return p, err
	case *types.Slice:
		if isByteSlice(t) {
			if j.kind != "str" {
				return mismatch()
			}
			dec := e.callFn(e.prog.LookupMethod(types.NewPointer(e.namedType("encoding/base64", "Encoding")), nil, "DecodeString"),
				[]value{e.load(e.global(e.globalVar("encoding/base64", "StdEncoding"))), j.s}).(tuple)
			if dec[1].(iface).t != nil {
				return old, &jsonErr{"json: illegal base64 data"}
			}
			return dec[0], nil
		}
		if j.kind != "arr" {
			return mismatch()
		}
		arr := make([]value, len(j.arr))
		var first *jsonErr
		for i, c := range j.arr {
			v, err := e.fromJSON(c, u.Elem(), zero(u.Elem()))
			if err != nil && first == nil {
				first = err
			}
			arr[i] = v
		}
		return &sliceV{arr: &arr, len: len(arr), cap: len(arr)}, first
	case *types.Map:
		if j.kind != "obj" {
			return mismatch()
		}
		m, _ := old.(*mapV)
		if m == nil {
			m = &mapV{}
		}
		var first *jsonErr
		for i, k := range j.keys {
			v, err := e.fromJSON(j.vals[i], u.Elem(), zero(u.Elem()))
			if err != nil && first == nil {
				first = err
			}
			_, _, idx := e.mapLookup(m, k)
			if idx >= 0 {
				m.vals[idx] = v
			} else {
				m.keys = append(m.keys, e.snapshot(k))
				m.vals = append(m.vals, v)
			}
		}
		return m, first
	case *types.Struct:
		if j.kind != "obj" {
			return mismatch()
		}
		s := copyVal(old).(structV)
		fields := jsonFields(u)
		var first *jsonErr
		for i, k := range j.keys {
			ks, ok := k.goString()
			if !ok {
				// a symbolic key: which field it names is decided by forking
				for _, f := range fields {
					if e.decide(e.strEq(k, constStrV(f.name))) {
						ks, ok = f.name, true
						break
					}
				}
				if !ok {
					continue
				}
			}
			var hit *jsonField
			for fi := range fields {
				if fields[fi].name == ks {
					hit = &fields[fi]
					break
				}
			}
			if hit == nil {
				for fi := range fields {
					if strings.EqualFold(fields[fi].name, ks) {
						hit = &fields[fi]
						break
					}
				}
			}
			if hit == nil {
				continue
			}
			v, err := e.fromJSON(j.vals[i], hit.typ, s[hit.idx])
			if err != nil && first == nil {
				first = err
			}
			s[hit.idx] = v
		}
		return s, first
	}
	e.end("unsupported", "M-json: unmarshal into "+t.String())
	return nil, nil
}

const jsonTokenPrefix = "\x01JSON-TOKEN#"

func (e *Engine) jsonEncode(j *jnode) *bytesV {
	if j.concrete() {
		data, err := json.Marshal(j.toGo())
		if err == nil {
			return concreteBytes(data)
		}
	}
	toks, _ := e.objs["jsontokens"].([]*jnode)
	toks = append(toks, j)
	e.objs["jsontokens"] = toks
	return concreteBytes([]byte(fmt.Sprintf("%s%d\x01", jsonTokenPrefix, len(toks)-1)))
}

func (e *Engine) jsonDecode(data *bytesV) (*jnode, *jsonErr) {
	s, ok := data.goString()
	if !ok {
		e.end("unsupported", "M-json: Unmarshal of symbolic text (bodies must be built with json.Marshal or be concrete)")
	}
	if strings.HasPrefix(s, jsonTokenPrefix) {
		var n int
		fmt.Sscanf(s[len(jsonTokenPrefix):], "%d", &n)
		toks, _ := e.objs["jsontokens"].([]*jnode)
		if n < len(toks) && strings.HasSuffix(s, "\x01") {
			return toks[n], nil
		}
		return nil, &jsonErr{"invalid character '\\x01' looking for beginning of value"}
	}
	dec := json.NewDecoder(strings.NewReader(s))
	dec.UseNumber()
	var x interface{}
	if err := dec.Decode(&x); err != nil {
		return nil, &jsonErr{err.Error()}
	}
	if dec.More() {
		return nil, &jsonErr{"invalid character after top-level value"}
	}
	return fromGo(x), nil
}

func (e *Engine) setupJSON() {
	x := e.ext
	errT := types.Universe.Lookup("error").Type()
	x["encoding/json.Marshal"] = func(e *Engine, fr *frame, a []value) value {
		i := a[0].(iface)
		var j *jnode
		if i.t == nil {
			j = &jnode{kind: "null"}
		} else {
			j = e.toJSON(i.t, i.v)
		}
		return tuple{e.jsonEncode(j), zero(errT)}
	}
	x["encoding/json.Unmarshal"] = func(e *Engine, fr *frame, a []value) value {
		dst := a[1].(iface)
		pt, ok := dst.t.Underlying().(*types.Pointer)
		p, _ := dst.v.(*value)
		if !ok || p == nil {
			return e.newErr("json: Unmarshal(non-pointer)")
		}
		j, jerr := e.jsonDecode(a[0].(*bytesV))
		if jerr != nil {
			return e.newErr(jerr.msg)
		}
		v, jerr := e.fromJSON(j, pt.Elem(), e.load(p))
		e.store(p, v)
		if jerr != nil {
			return e.newErr(jerr.msg)
		}
		return zero(errT)
	}
}
