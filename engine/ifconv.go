package main

// If-conversion: when a symbolic branch opens a small acyclic region of pure
// instructions that re-joins at the branch's immediate post-dominator, evaluate
// the whole region with guards and merge the phis with ite instead of forking.

import (
	"go/token"

	"golang.org/x/tools/go/ssa"
)

type fnInfo struct {
	ipdom map[*ssa.BasicBlock]*ssa.BasicBlock
}

func (e *Engine) info(fn *ssa.Function) *fnInfo {
	if fi, ok := e.fnInfos[fn]; ok {
		return fi
	}
	fi := &fnInfo{ipdom: postDominators(fn)}
	e.fnInfos[fn] = fi
	return fi
}

// postDominators: iterative set-based algorithm (functions are small).
func postDominators(fn *ssa.Function) map[*ssa.BasicBlock]*ssa.BasicBlock {
	n := len(fn.Blocks)
	all := make([]bool, n)
	for i := range all {
		all[i] = true
	}
	pd := make([][]bool, n)
	for i, b := range fn.Blocks {
		if len(b.Succs) == 0 {
			pd[i] = make([]bool, n)
			pd[i][i] = true
		} else {
			pd[i] = append([]bool{}, all...)
		}
	}
	changed := true
	for changed {
		changed = false
		for i := n - 1; i >= 0; i-- {
			b := fn.Blocks[i]
			if len(b.Succs) == 0 {
				continue
			}
			nw := append([]bool{}, all...)
			for _, s := range b.Succs {
				for k := 0; k < n; k++ {
					nw[k] = nw[k] && pd[s.Index][k]
				}
			}
			nw[i] = true
			for k := 0; k < n; k++ {
				if nw[k] != pd[i][k] {
					changed = true
				}
			}
			pd[i] = nw
		}
	}
	res := map[*ssa.BasicBlock]*ssa.BasicBlock{}
	for i, b := range fn.Blocks {
		// immediate post-dominator: the strict post-dominator that is post-dominated by all others
		var best *ssa.BasicBlock
		for k := 0; k < n; k++ {
			if k == i || !pd[i][k] {
				continue
			}
			cand := fn.Blocks[k]
			ok := true
			for m := 0; m < n; m++ {
				if m == i || m == k || !pd[i][m] {
					continue
				}
				if !pd[k][m] { // every other strict pdom must also post-dominate cand
					ok = false
					break
				}
			}
			if ok {
				best = cand
				break
			}
		}
		res[b] = best
	}
	return res
}

func pureInstr(in ssa.Instruction) bool {
	switch in := in.(type) {
	case *ssa.BinOp:
		return in.Op != token.QUO && in.Op != token.REM
	case *ssa.UnOp:
		return in.Op == token.NOT || in.Op == token.SUB || in.Op == token.XOR
	case *ssa.Convert, *ssa.ChangeType, *ssa.Phi, *ssa.DebugRef:
		return true
	}
	return false
}

// tryMerge attempts if-conversion at block b (ending in If with symbolic cond c).
// On success it sets up fr to continue at the join block and returns true.
func (e *Engine) tryMerge(fr *frame, b *ssa.BasicBlock, c *Term) bool {
	j := e.info(fr.fn).ipdom[b]
	if j == nil {
		return false
	}
	// collect region
	region := map[*ssa.BasicBlock]bool{}
	var order []*ssa.BasicBlock
	state := map[*ssa.BasicBlock]int{}
	ok := true
	var visit func(x *ssa.BasicBlock)
	visit = func(x *ssa.BasicBlock) {
		if !ok || x == j {
			return
		}
		if x == b || state[x] == 1 {
			ok = false // cycle
			return
		}
		if state[x] == 2 {
			return
		}
		state[x] = 1
		region[x] = true
		if len(region) > 12 {
			ok = false
			return
		}
		for _, in := range x.Instrs[:len(x.Instrs)-1] {
			if !pureInstr(in) {
				ok = false
				return
			}
		}
		switch x.Instrs[len(x.Instrs)-1].(type) {
		case *ssa.Jump, *ssa.If:
		default:
			ok = false
			return
		}
		for _, s := range x.Succs {
			visit(s)
		}
		state[x] = 2
		order = append(order, x)
	}
	for _, s := range b.Succs {
		visit(s)
	}
	if !ok {
		return false
	}
	// reverse post-order = topological order
	for i, k := 0, len(order)-1; i < k; i, k = i+1, k-1 {
		order[i], order[k] = order[k], order[i]
	}
	type edge struct{ from, to *ssa.BasicBlock }
	eg := map[edge]*Term{}
	eg[edge{b, b.Succs[0]}] = c
	if b.Succs[1] == b.Succs[0] {
		eg[edge{b, b.Succs[0]}] = TrueT
	} else {
		eg[edge{b, b.Succs[1]}] = Not(c)
	}
	guardOf := func(x *ssa.BasicBlock) *Term {
		g := FalseT
		for _, p := range x.Preds {
			if t, ok := eg[edge{p, x}]; ok {
				g = Or(g, t)
			}
		}
		return g
	}
	phiVal := func(x *ssa.BasicBlock, phi *ssa.Phi) (value, bool) {
		var res *Term
		var single value
		cnt := 0
		for i, p := range x.Preds {
			g, okE := eg[edge{p, x}]
			if !okE {
				continue
			}
			v := e.get(fr, phi.Edges[i])
			cnt++
			t, isT := v.(*Term)
			if !isT {
				if cnt == 1 {
					single = v
					continue
				}
				return nil, false
			}
			if single != nil {
				return nil, false
			}
			if res == nil {
				res = t
			} else {
				res = Ite(g, t, res)
			}
		}
		if single != nil {
			if cnt == 1 {
				return single, true
			}
			return nil, false
		}
		return res, res != nil
	}
	saved := map[ssa.Value]value{}
	restore := func() {
		for k, v := range saved {
			if v == nil {
				delete(fr.env, k)
			} else {
				fr.env[k] = v
			}
		}
	}
	set := func(k ssa.Value, v value) {
		if _, seen := saved[k]; !seen {
			saved[k] = fr.env[k]
		}
		fr.env[k] = v
	}
	for _, x := range order {
		g := guardOf(x)
		for _, in := range x.Instrs[:len(x.Instrs)-1] {
			switch in := in.(type) {
			case *ssa.Phi:
				v, okp := phiVal(x, in)
				if !okp {
					restore()
					return false
				}
				set(in, v)
			case *ssa.BinOp:
				xv, ok1 := e.get(fr, in.X).(*Term)
				yv, ok2 := e.get(fr, in.Y).(*Term)
				if !ok1 || !ok2 {
					restore()
					return false
				}
				set(in, e.binop(in.Op, in.X.Type(), xv, yv))
			case *ssa.UnOp:
				if _, isT := e.get(fr, in.X).(*Term); !isT {
					restore()
					return false
				}
				set(in, e.unop(fr, in))
			case *ssa.Convert:
				if _, isT := e.get(fr, in.X).(*Term); !isT {
					restore()
					return false
				}
				set(in, e.conv(in.X.Type(), in.Type(), e.get(fr, in.X)))
			case *ssa.ChangeType:
				set(in, e.get(fr, in.X))
			}
		}
		switch t := x.Instrs[len(x.Instrs)-1].(type) {
		case *ssa.Jump:
			eg[edge{x, x.Succs[0]}] = g
		case *ssa.If:
			cc, isT := e.get(fr, t.Cond).(*Term)
			if !isT {
				restore()
				return false
			}
			eg[edge{x, x.Succs[0]}] = And(g, cc)
			eg[edge{x, x.Succs[1]}] = And(g, Not(cc))
		}
	}
	// phis of the join block
	over := map[*ssa.Phi]value{}
	for _, in := range j.Instrs {
		phi, isPhi := in.(*ssa.Phi)
		if !isPhi {
			break
		}
		v, okp := phiVal(j, phi)
		if !okp {
			restore()
			return false
		}
		over[phi] = v
	}
	fr.phiOverride = over
	fr.prev, fr.block = nil, j
	e.Merges++
	return true
}
