package main

// M-fmt: fmt.Sprintf / Sprint / Sprintln / Fprintf / Fprintln / Fprint / Errorf
// and the log package. Verbs %s %v %d %q %x %t %+v on concrete arguments are
// formatted by the real fmt; symbolic strings under %s / %v are spliced in as
// symbolic bytes; anything else symbolic ends the path as unsupported. log.* has
// an empty body, log.Fatal* is a process-exit event.

import (
	"fmt"
	"go/types"
	"strings"
)

func (e *Engine) varargs(v value) []value {
	sl, ok := v.(*sliceV)
	if !ok || sl == nil || sl.arr == nil {
		return nil
	}
	var out []value
	for _, x := range (*sl.arr)[sl.off : sl.off+sl.len] {
		out = append(out, x)
	}
	return out
}

// fmtArg renders one interface argument: either a concrete Go value or a
// symbolic byte string.
func (e *Engine) fmtArg(v value) (interface{}, *bytesV) { return e.fmtArgOpt(v, false) }

// fmtArgOpt: with opaque set (error and log texts, whose content no check may
// depend on) a composite value is rendered as a type placeholder instead of
// ending the path as unsupported.
func (e *Engine) fmtArgOpt(v value, opaque bool) (interface{}, *bytesV) {
	i, ok := v.(iface)
	if !ok {
		return "<?>", nil
	}
	if i.t == nil {
		return nil, nil
	}
	switch x := i.v.(type) {
	case *Term:
		if !x.Const {
			return nil, &bytesV{} // marker: symbolic scalar
		}
		if isBool(i.t) {
			return x.V == 1, nil
		}
		if isFloat(i.t) {
			return fl(x.V), nil
		}
		if _, signed, ok := intWidth(i.t); ok {
			if signed {
				return sext(x.V, x.S.W), nil
			}
			return x.V, nil
		}
		return x.V, nil
	case byteArrayV:
		bs := make([]byte, len(x.a.b))
		for i, c := range x.a.b {
			if !c.Const {
				return nil, &bytesV{}
			}
			bs[i] = byte(c.V)
		}
		return bs, nil
	case *bytesV:
		if s, ok := x.goString(); ok {
			if isString(i.t) {
				return s, nil
			}
			return []byte(s), nil
		}
		return nil, x
	}
	// error values and Stringers: use their Error()/String() method when the type has one
	if name := e.textMethod(i.t); name != "" {
		r := e.callMethod(i, name)
		if b, ok := r.(*bytesV); ok {
			if s, ok := b.goString(); ok {
				return s, nil
			}
			return nil, b
		}
	}
	switch i.v.(type) {
	case structV, arrayV, *sliceV, *mapV:
		if opaque {
			return fmt.Sprintf("<%s>", types.TypeString(i.t, nil)), nil
		}
		// a composite value whose rendering the model does not know: never guess
		e.end("unsupported", "M-fmt: formatting of a "+types.TypeString(i.t, nil)+" value")
	}
	return fmt.Sprintf("<%s>", types.TypeString(i.t, nil)), nil
}

func (e *Engine) textMethod(t types.Type) string {
	ms := e.prog.MethodSets.MethodSet(t)
	for _, name := range []string{"Error", "String"} {
		for i := 0; i < ms.Len(); i++ {
			f := ms.At(i).Obj().(*types.Func)
			if f.Name() == name {
				sig := f.Type().(*types.Signature)
				if sig.Params().Len() == 0 && sig.Results().Len() == 1 && isString(sig.Results().At(0).Type()) {
					return name
				}
			}
		}
	}
	return ""
}

// sprintf returns the formatted string as a byte-string value.
func (e *Engine) sprintf(format string, args []value, opaque bool) *bytesV {
	out := constStrV("")
	lit := func(s string) {
		if s != "" {
			out = e.concat(out, constStrV(s))
		}
	}
	ai := 0
	i := 0
	for i < len(format) {
		j := strings.IndexByte(format[i:], '%')
		if j < 0 {
			lit(format[i:])
			break
		}
		lit(format[i : i+j])
		i += j
		// parse verb
		k := i + 1
		for k < len(format) && strings.IndexByte("+-# 0123456789.", format[k]) >= 0 {
			k++
		}
		if k >= len(format) {
			lit(format[i:])
			break
		}
		verb := format[i : k+1]
		i = k + 1
		if verb == "%%" {
			lit("%")
			continue
		}
		if ai >= len(args) {
			lit("%!" + verb[len(verb)-1:] + "(MISSING)")
			continue
		}
		g, sym := e.fmtArgOpt(args[ai], opaque)
		ai++
		if sym != nil && opaque {
			// error and log texts are opaque: a symbolic argument is not rendered
			lit("<symbolic>")
			continue
		}
		if sym != nil {
			if sym.arr == nil {
				e.end("unsupported", "M-fmt: symbolic scalar under "+verb)
			}
			if verb == "%s" || verb == "%v" || verb == "%+v" {
				out = e.concat(out, sym)
				continue
			}
			if verb == "%q" {
				// quoting: interpret the real strconv.Quote on the symbolic string
				q := e.callFn(e.fn("strconv", "Quote"), []value{sym}).(*bytesV)
				out = e.concat(out, q)
				continue
			}
			e.end("unsupported", "M-fmt: symbolic string under "+verb)
		}
		if verb == "%w" {
			verb = "%v"
		}
		lit(fmt.Sprintf(verb, g))
	}
	return out
}

func (e *Engine) sprint(args []value, ln bool) *bytesV {
	out := constStrV("")
	for i, a := range args {
		if i > 0 && ln {
			out = e.concat(out, constStrV(" "))
		}
		g, sym := e.fmtArg(a)
		if sym != nil {
			if sym.arr == nil {
				e.end("unsupported", "M-fmt: symbolic scalar in Sprint")
			}
			out = e.concat(out, sym)
			continue
		}
		out = e.concat(out, constStrV(fmt.Sprint(g)))
	}
	if ln {
		out = e.concat(out, constStrV("\n"))
	}
	return out
}

func (e *Engine) setupFmt() {
	x := e.ext
	x["fmt.Sprintf"] = func(e *Engine, fr *frame, a []value) value {
		f, ok := a[0].(*bytesV).goString()
		if !ok {
			e.end("unsupported", "M-fmt: symbolic format string")
		}
		return e.sprintf(f, e.varargs(a[1]), false)
	}
	x["fmt.Errorf"] = func(e *Engine, fr *frame, a []value) value {
		f, ok := a[0].(*bytesV).goString()
		if !ok {
			e.end("unsupported", "M-fmt: symbolic format string")
		}
		return e.callFn(e.fn("errors", "New"), []value{e.sprintf(f, e.varargs(a[1]), true)})
	}
	x["fmt.Sprint"] = func(e *Engine, fr *frame, a []value) value { return e.sprint(e.varargs(a[0]), false) }
	x["fmt.Sprintln"] = func(e *Engine, fr *frame, a []value) value { return e.sprint(e.varargs(a[0]), true) }
	fwrite := func(e *Engine, w value, s *bytesV) value {
		r := e.callMethod(w.(iface), "Write", e.snapshotBytes(s)).(tuple)
		return tuple{r[0], r[1]}
	}
	x["fmt.Fprintf"] = func(e *Engine, fr *frame, a []value) value {
		f, ok := a[1].(*bytesV).goString()
		if !ok {
			e.end("unsupported", "M-fmt: symbolic format string")
		}
		return fwrite(e, a[0], e.sprintf(f, e.varargs(a[2]), false))
	}
	x["fmt.Fprintln"] = func(e *Engine, fr *frame, a []value) value { return fwrite(e, a[0], e.sprint(e.varargs(a[1]), true)) }
	x["fmt.Fprint"] = func(e *Engine, fr *frame, a []value) value { return fwrite(e, a[0], e.sprint(e.varargs(a[1]), false)) }
	nop := func(e *Engine, fr *frame, a []value) value { return nil }
	for _, n := range []string{"log.Printf", "log.Println", "log.Print", "(*log.Logger).Printf", "(*log.Logger).Println", "(*log.Logger).Print"} {
		x[n] = nop
	}
	fatal := func(e *Engine, fr *frame, a []value) value {
		e.exitEvent("log.Fatal")
		return nil
	}
	for _, n := range []string{"log.Fatal", "log.Fatalf", "log.Fatalln"} {
		x[n] = fatal
	}
}

// snapshotBytes: a []byte copy of a string value.
func (e *Engine) snapshotBytes(s *bytesV) *bytesV { return e.snapshot(s) }

// exitEvent: the process exits (log.Fatal, os.Exit). The harness may have
// registered a handler with rt.OnExit; by default it is a path-ending panic.
func (e *Engine) exitEvent(why string) {
	h, ok := e.objs["onexit"]
	if !ok {
		e.rtPanic("process exit: " + why)
	}
	e.callAny(nil, h.(value), []value{constStrV(why)}, 0)
	// the process is gone: every goroutine of the program stops; only the harness
	// thread (T0) goes on, to evaluate its assertions
	for _, t := range e.threads[1:] {
		t.killed = true
	}
	if e.cur.id == 0 {
		e.end("exit", why)
	}
	e.block(func() bool { return false }, "process exited ("+why+")")
}
