//go:build verif

// Package zzverifrt holds the harness intrinsics of the /verif machinery. It is
// never written into the repository: it enters builds through an overlay as the
// virtual directory <repo>/zzverifrt.
//
// The symbolic engine (gosym) intercepts every exported function of this
// package. The bodies below are the *native* semantics, used when a solver
// assignment is replayed against the real build with `go test -overlay`: values
// come from the assignment file named by $VERIF_REPLAY.
package zzverifrt

import (
	"encoding/hex"
	"encoding/json"
	"fmt"
	"math"
	"os"
	"path/filepath"
	"sort"
	"strconv"
	"strings"
	"sync"
	"time"
)

// Assignment is the on-disk form of a counterexample or path witness.
type Assignment struct {
	Property string            `json:"property"`
	Run      string            `json:"run"`
	Pkg      string            `json:"pkg"`
	Entry    string            `json:"entry"`
	Kind     string            `json:"kind"`  // assert | panic | deadlock | race | witness
	Label    string            `json:"label"` // failing assertion / panic message
	Class    string            `json:"class"` // known-finding class, "" when outside all
	Values   map[string]string `json:"values"`
	Params   map[string]int    `json:"params"`
	Schedule []int             `json:"decisions,omitempty"`
	Obs      []string          `json:"obs,omitempty"`
	Covers   []string          `json:"covers,omitempty"`
	Threads  int               `json:"threads,omitempty"`
	Note     string            `json:"note,omitempty"`
}

var (
	mu       sync.Mutex
	cur      Assignment
	Failures []string
	Covered  = map[string]bool{}
	Skipped  bool
	Obs      []string
	KnownHit = map[string]bool{}
)

// Load installs an assignment and clears the recorded outcome.
func Load(a Assignment) {
	mu.Lock()
	defer mu.Unlock()
	cur = a
	if cur.Values == nil {
		cur.Values = map[string]string{}
	}
	Failures = nil
	Covered = map[string]bool{}
	Skipped = false
	Obs = nil
	KnownHit = map[string]bool{}
}

func LoadFile(path string) (Assignment, error) {
	var a Assignment
	data, err := os.ReadFile(path)
	if err != nil {
		return a, err
	}
	if err := json.Unmarshal(data, &a); err != nil {
		return a, err
	}
	Load(a)
	return a, nil
}

func get(name string) (string, bool) {
	mu.Lock()
	defer mu.Unlock()
	v, ok := cur.Values[name]
	return v, ok
}

func skip() {
	mu.Lock()
	Skipped = true
	mu.Unlock()
}

// Param is a bound chosen by the check specification (tier dependent); concrete
// in the engine as well.
func Param(name string, def int) int {
	mu.Lock()
	defer mu.Unlock()
	if v, ok := cur.Params[name]; ok {
		return v
	}
	return def
}

func Int(name string, lo, hi int) int {
	s, ok := get(name)
	if !ok {
		return lo
	}
	v, err := strconv.ParseInt(s, 10, 64)
	if err != nil || int(v) < lo || int(v) > hi {
		skip()
		return lo
	}
	return int(v)
}

func Choice(name string, n int) int { return Int(name, 0, n-1) }

func Uint64(name string) uint64 {
	s, ok := get(name)
	if !ok {
		return 0
	}
	v, _ := strconv.ParseUint(s, 10, 64)
	return v
}

func Bool(name string) bool {
	s, _ := get(name)
	return s == "true"
}

func Byte(name string) byte {
	s, ok := get(name)
	if !ok {
		return 0
	}
	v, _ := strconv.ParseUint(s, 10, 8)
	return byte(v)
}

// Float01 is a float64 in [0,1); the assignment stores the IEEE bits in hex.
func Float01(name string) float64 {
	s, ok := get(name)
	if !ok {
		return 0
	}
	bits, _ := strconv.ParseUint(s, 16, 64)
	return math.Float64frombits(bits)
}

func Bytes(name string, cap int) []byte {
	s, ok := get(name)
	if !ok {
		return []byte{}
	}
	b, err := hex.DecodeString(s)
	if err != nil || len(b) > cap {
		skip()
		return []byte{}
	}
	return b
}

func String(name string, cap int) string { return string(Bytes(name, cap)) }

// AssumptionViolated is the panic value of a replay whose values do not satisfy
// an assumption (impossible for a solver model of the same path).
const AssumptionViolated = "zzverifrt: assumption violated"

func Assume(c bool) {
	if !c {
		skip()
		panic(AssumptionViolated)
	}
}

func Assert(c bool, label string) {
	if !c {
		mu.Lock()
		Failures = append(Failures, label)
		mu.Unlock()
	}
}

func Cover(label string) { mu.Lock(); Covered[label] = true; mu.Unlock() }

func Known(id string, c bool) {
	if c {
		mu.Lock()
		KnownHit[id] = true
		mu.Unlock()
	}
}

// Observe records an observable for witness comparison. Arguments must be
// ints, bools, strings or byte slices.
func Observe(label string, v ...interface{}) {
	s := label
	for _, x := range v {
		s += " " + fmtObs(x)
	}
	mu.Lock()
	Obs = append(Obs, s)
	mu.Unlock()
}

func fmtObs(x interface{}) string {
	switch x := x.(type) {
	case string:
		return hex.EncodeToString([]byte(x))
	case []byte:
		return hex.EncodeToString(x)
	case bool:
		if x {
			return "true"
		}
		return "false"
	case int:
		return strconv.FormatInt(int64(x), 10)
	case int64:
		return strconv.FormatInt(x, 10)
	case uint64:
		return strconv.FormatInt(int64(x), 10)
	case byte:
		return strconv.FormatInt(int64(x), 10)
	case int32:
		return strconv.FormatInt(int64(x), 10)
	case uint:
		return strconv.FormatInt(int64(x), 10)
	}
	return fmt.Sprintf("%v", x)
}

// Daemon marks the calling goroutine as an environment thread that may stay
// blocked for ever (engine only).
func Daemon() {}

// Quiesce lets every other goroutine run until none can move and returns the
// number of non-daemon goroutines that are then still blocked. Natively this can
// only be approximated by waiting; it returns 0.
func Quiesce() int {
	time.Sleep(20 * time.Millisecond)
	return 0
}

// Yield is a scheduling point (engine only).
func Yield() {}

// Unreachable ends the path as a violation with the given label when reached.
func Unreachable(label string) { Assert(false, label) }

func Itoa(i int) string { return strconv.Itoa(i) }

// ---------------------------------------------------------------------------
// replay driver used by the generated TestVerifReplay

type TB interface {
	Logf(format string, args ...interface{})
	Errorf(format string, args ...interface{})
}

// Replay runs entry under every assignment named by $VERIF_REPLAY (a file or a
// directory of *.json files) and prints one machine-readable line per file.
func Replay(t TB, entries map[string]func()) {
	path := os.Getenv("VERIF_REPLAY")
	if path == "" {
		t.Logf("VERIF_REPLAY not set; nothing to replay")
		return
	}
	var files []string
	if st, err := os.Stat(path); err == nil && st.IsDir() {
		m, _ := filepath.Glob(filepath.Join(path, "*.json"))
		sort.Strings(m)
		files = m
	} else {
		files = []string{path}
	}
	for _, f := range files {
		a, err := LoadFile(f)
		if err != nil {
			fmt.Printf("VERIF-REPLAY file=%s result=error msg=%q\n", f, err.Error())
			continue
		}
		fn, ok := entries[a.Entry]
		if !ok {
			continue
		}
		res, detail := runOne(fn, a)
		fmt.Printf("VERIF-REPLAY file=%s result=%s detail=%q\n", f, res, detail)
	}
}

func runOne(fn func(), a Assignment) (res, detail string) {
	done := make(chan interface{}, 1)
	go func() {
		defer func() { done <- recover() }()
		fn()
	}()
	var pv interface{}
	hung := false
	select {
	case pv = <-done:
	case <-time.After(replayTimeout()):
		hung = true
	}
	mu.Lock()
	defer mu.Unlock()
	if Skipped || pv == AssumptionViolated {
		return "skipped", "assumption violated natively"
	}
	if hung {
		if a.Kind == "deadlock" {
			return "reproduced", "hang"
		}
		return "hang", ""
	}
	if pv != nil {
		msg := fmt.Sprint(pv)
		if a.Kind == "panic" {
			return "reproduced", "panic: " + msg
		}
		return "panic", msg
	}
	if len(Failures) > 0 {
		if a.Kind == "witness" {
			return "mismatch", "assertion failed natively: " + strings.Join(Failures, "; ")
		}
		for _, f := range Failures {
			if f == a.Label {
				return "reproduced", f
			}
		}
		return "reproduced-other", strings.Join(Failures, "; ")
	}
	if a.Kind == "witness" {
		if a.Obs != nil && strings.Join(a.Obs, "|") != strings.Join(Obs, "|") {
			return "mismatch", "obs want " + strings.Join(a.Obs, "|") + " got " + strings.Join(Obs, "|")
		}
		for _, c := range a.Covers {
			if !Covered[c] {
				return "mismatch", "cover point not reached natively: " + c
			}
		}
		return "match", ""
	}
	return "not-reproduced", ""
}

func replayTimeout() time.Duration {
	if s := os.Getenv("VERIF_REPLAY_TIMEOUT_MS"); s != "" {
		if v, err := strconv.Atoi(s); err == nil {
			return time.Duration(v) * time.Millisecond
		}
	}
	return 5 * time.Second
}

// Link, CloseWrite and WSClosed belong to the M-ws model (engine only: harnesses
// that use them are replayed by concrete re-execution in the engine).
func Link(a, b interface{})       {}
func CloseWrite(a interface{})    {}
func WSClosed(a interface{}) bool { return false }

// Stub replaces a function that is NOT part of the repository (standard
// library or third-party) by a model written in Go; fn must have the same
// parameters (receiver first). Engine only: natively the real function runs.
func Stub(name string, fn interface{}) {}

// OnExit registers a handler for process-exit events (log.Fatal, os.Exit) in the
// engine; the path ends after the handler returns.
func OnExit(fn func(why string)) {}

// Virtual-time helpers (engine only).
func SleptCount() int   { return 0 }
func Slept(i int) int64 { return -1 }
func Advance(ns int64)  {}
func FireTimers() int   { return 0 }

// Debug prints its arguments when the engine runs with GOSYM_DEBUG set.
func Debug(label string, v ...interface{}) {}

// M-ws dial recorder (engine only).
func WSDials() int                 { return 0 }
func WSDialURL(i int) string       { return "" }
func WSDialPeer(i int) interface{} { return nil }
func WSDialFail(fail bool)         {}

// ASCII reports whether every byte of s is below 0x80 (a pure loop: no forks in
// the engine).
func ASCII(s string) bool {
	ok := true
	for i := 0; i < len(s); i++ {
		ok = ok && s[i] < 0x80
	}
	return ok
}

// WSDialClosed reports whether the agent-side end of the i-th dialled websocket
// was closed (engine only).
func WSDialClosed(i int) bool { return false }

// M-ws upgrade recorder (engine only).
func WSUpgrades() int                 { return 0 }
func WSUpgradePeer(i int) interface{} { return nil }
func WSUpgradeClosed(i int) bool      { return false }
func WSUpgradeFail(fail bool)         {}
