//go:build verif

package zzverifrt

// Models written in Go for third-party code that the engine cannot interpret
// (they are interpreted like any other Go code). Installed with Stub, so they
// are inert natively.

import (
	"io"
	"net/http"
	"strings"
)

// M-mux: http.ServeMux as an ordered table of patterns. Exact patterns match the
// path exactly, patterns ending in "/" match the subtree, the longest pattern
// wins; a path that is not in canonical form is redirected (301) and no match is
// a 404 — neither reaches a handler. Host and method patterns are not modelled.
type muxEntry struct {
	pattern string
	h       http.Handler
}

var muxTab = map[*http.ServeMux][]muxEntry{}

func muxHandle(m *http.ServeMux, pattern string, h http.Handler) {
	if pattern == "" || h == nil {
		panic("http: invalid pattern or nil handler")
	}
	for _, e := range muxTab[m] {
		if e.pattern == pattern {
			panic("http: multiple registrations for " + pattern)
		}
	}
	muxTab[m] = append(muxTab[m], muxEntry{pattern, h})
}

func muxMatch(m *http.ServeMux, path string) http.Handler {
	var best http.Handler
	bestLen := -1
	for _, e := range muxTab[m] {
		ok := false
		if strings.HasSuffix(e.pattern, "/") {
			ok = strings.HasPrefix(path, e.pattern)
		} else {
			ok = path == e.pattern
		}
		if ok && len(e.pattern) > bestLen {
			best, bestLen = e.h, len(e.pattern)
		}
	}
	return best
}

// cleanPathOK reports whether p is already in the canonical form the real mux
// requires (otherwise it answers with a redirect).
func cleanPathOK(p string) bool {
	if p == "" || p[0] != '/' {
		return false
	}
	if strings.Contains(p, "//") || strings.Contains(p, "/./") || strings.Contains(p, "/../") || strings.HasSuffix(p, "/.") || strings.HasSuffix(p, "/..") {
		return false
	}
	return true
}

// MuxRedirected and MuxNotFound count the requests the model answered itself.
var MuxRedirected, MuxNotFound int

func InstallMuxModel() {
	Stub("net/http.NewServeMux", func() *http.ServeMux { return new(http.ServeMux) })
	Stub("(*net/http.ServeMux).Handle", muxHandle)
	Stub("(*net/http.ServeMux).HandleFunc", func(m *http.ServeMux, pattern string, f func(http.ResponseWriter, *http.Request)) {
		if f == nil {
			panic("http: nil handler")
		}
		muxHandle(m, pattern, http.HandlerFunc(f))
	})
	Stub("(*net/http.ServeMux).ServeHTTP", func(m *http.ServeMux, w http.ResponseWriter, r *http.Request) {
		p := r.URL.Path
		if r.Method != "CONNECT" && !cleanPathOK(p) {
			MuxRedirected++
			w.Header().Set("Location", "<cleaned path>")
			w.WriteHeader(http.StatusMovedPermanently)
			return
		}
		h := muxMatch(m, p)
		if h == nil {
			// a subtree pattern also redirects the path without its trailing slash
			if muxMatch(m, p+"/") != nil {
				MuxRedirected++
				w.Header().Set("Location", p+"/")
				w.WriteHeader(http.StatusMovedPermanently)
				return
			}
			MuxNotFound++
			w.Header().Set("Content-Type", "text/plain; charset=utf-8")
			w.WriteHeader(http.StatusNotFound)
			w.Write([]byte("404 page not found\n"))
			return
		}
		h.ServeHTTP(w, r)
	})
}

// Recorder is a minimal http.ResponseWriter for harnesses (httptest is too
// heavy for the engine).
type Recorder struct {
	H       http.Header
	Code    int
	Body    []byte
	Writes  int
	Flushed int
}

func NewRecorder() *Recorder { return &Recorder{H: http.Header{}} }

func (r *Recorder) Header() http.Header { return r.H }
func (r *Recorder) WriteHeader(c int) {
	if r.Code == 0 {
		r.Code = c
	}
}
func (r *Recorder) Write(b []byte) (int, error) {
	if r.Code == 0 {
		r.Code = 200
	}
	r.Writes++
	r.Body = append(r.Body, b...)
	return len(b), nil
}
func (r *Recorder) Flush() { r.Flushed++ }

// WSDialHeader returns the header passed to the i-th websocket dial (engine only).
func WSDialHeader(i int) http.Header { return nil }

// M-psl: the public-suffix list is embedded binary data that the engine cannot
// see; the model says "the last label is the public suffix" (so a.b.example and
// example share a registrable domain only when equal up to that label). The
// real net/http/cookiejar code is interpreted on top of it.
func InstallPublicSuffixModel() {
	Stub("golang.org/x/net/publicsuffix.PublicSuffix", func(domain string) (string, bool) {
		return domain[1+strings.LastIndex(domain, "."):], false
	})
}

// EOFBody is a response body that runs a callback when it reports EOF for the
// first time; the HTTP wire model uses it to publish trailer values only after
// the body has been read, as net/http does.
type EOFBody struct {
	R     io.Reader
	AtEOF func()
	done  bool
}

func (b *EOFBody) Read(p []byte) (int, error) {
	n, err := b.R.Read(p)
	if err == io.EOF && !b.done {
		b.done = true
		if b.AtEOF != nil {
			b.AtEOF()
		}
	}
	return n, err
}

func (b *EOFBody) Close() error { return nil }

// WireBody decodes the body part of the M-http-wire request format lazily from
// the reader the request head was parsed from (as net/http's request bodies read
// lazily from the connection's bufio.Reader): a sequence of chunks, each a length
// byte followed by that many bytes, ended by a zero length byte.
type WireBody struct {
	R         io.Reader
	remaining int
	done      bool
}

func (b *WireBody) Read(p []byte) (int, error) {
	if b.done {
		return 0, io.EOF
	}
	if len(p) == 0 {
		return 0, nil
	}
	if b.remaining == 0 {
		var l [1]byte
		if _, err := io.ReadFull(b.R, l[:]); err != nil {
			b.done = true
			return 0, io.ErrUnexpectedEOF
		}
		if l[0] == 0 {
			b.done = true
			return 0, io.EOF
		}
		b.remaining = int(l[0])
	}
	n := len(p)
	if n > b.remaining {
		n = b.remaining
	}
	n, err := io.ReadFull(b.R, p[:n])
	b.remaining -= n
	if err != nil {
		b.done = true
		return n, io.ErrUnexpectedEOF
	}
	return n, nil
}

func (b *WireBody) Close() error { return nil }
