//go:build verif

package main

// Harnesses for the stand-alone proxy (server/server.go): C01 (every client gets
// the response to its own request), C02 / C03 proxy halves (hop-by-hop filtering,
// request / response relayed unaltered), C04 proxy half (each request ID is handed
// to exactly one pending-list reply). Clients and the agent are harness threads
// that call the real proxy.ServeHTTP directly; the wire format between agent and
// proxy is the M-http-wire codec.

import (
	"bufio"
	"bytes"
	"context"
	"encoding/json"
	"net/http"
	"net/url"
	"strings"

	"github.com/google/inverting-proxy/agent/utils"
	rt "github.com/google/inverting-proxy/zzverifrt"
)

// the proxy is built in a package initialiser so that the (deterministic, long)
// seeding of its random generator is part of the cached initialiser phase
var vSeedProxy = newProxy()

type vBody struct{ r *strings.Reader }

func (b vBody) Read(p []byte) (int, error) { return b.r.Read(p) }
func (b vBody) Close() error               { return nil }

func vClientRequest(method, path, query, body string, hdr http.Header) *http.Request {
	if hdr == nil {
		hdr = http.Header{}
	}
	return &http.Request{Method: method, URL: &url.URL{Path: path, RawQuery: query}, Host: "service.example.com", Header: hdr,
		Body: vBody{strings.NewReader(body)}, ContentLength: int64(len(body)), Proto: "HTTP/1.1", ProtoMajor: 1, ProtoMinor: 1}
}

func vAgentRequest(method, requestID, body string) *http.Request {
	h := http.Header{}
	h.Set(utils.HeaderBackendID, "backend-1")
	if requestID != "" {
		h.Set(utils.HeaderRequestID, requestID)
	}
	return &http.Request{Method: method, URL: &url.URL{Path: "/agent"}, Host: "proxy.example.com", Header: h,
		Body: vBody{strings.NewReader(body)}, ContentLength: int64(len(body)), Proto: "HTTP/1.1", ProtoMajor: 1, ProtoMinor: 1}
}

// vList performs one pending-list call and returns the listed IDs.
func vList(p *proxy) []string {
	w := rt.NewRecorder()
	p.ServeHTTP(w, vAgentRequest("GET", "", ""))
	var ids []string
	if w.Code == 200 {
		json.Unmarshal(w.Body, &ids)
	}
	rt.Debug("list", w.Code, string(w.Body))
	return ids
}

// vFetch fetches the request stored under id, as the agent does.
func vFetch(p *proxy, id string) (*http.Request, int) {
	w := rt.NewRecorder()
	p.ServeHTTP(w, vAgentRequest("GET", id, ""))
	if w.Code != 200 {
		return nil, w.Code
	}
	req, err := http.ReadRequest(bufio.NewReader(bytes.NewReader(w.Body)))
	if err != nil {
		return nil, -1
	}
	return req, 200
}

// vPost uploads a response for id.
func vPost(p *proxy, id string, resp *http.Response) int {
	var wire bytes.Buffer
	resp.Write(&wire)
	w := rt.NewRecorder()
	p.ServeHTTP(w, vAgentRequest("POST", id, wire.String()))
	if w.Code == 0 {
		return 200
	}
	return w.Code
}

func vReadAll(r *http.Request) string {
	if r.Body == nil {
		return ""
	}
	var buf bytes.Buffer
	buf.ReadFrom(r.Body)
	return buf.String()
}

// VerifC01Proxy (HS-1 / HS-4): n concurrent clients, one or two agent pollers that
// list, fetch and answer; each response is tagged with what the agent read from
// the fetched request.
func VerifC01Proxy() {
	p := vSeedProxy
	nClients := rt.Param("clients", 2)
	nPollers := rt.Param("pollers", 1)
	recorders := make([]*rt.Recorder, nClients)
	clientDone := make(chan int, nClients)
	for i := 0; i < nClients; i++ {
		recorders[i] = rt.NewRecorder()
		go func(i int) {
			h := http.Header{}
			h.Set("X-Client", "client-"+rt.Itoa(i))
			p.ServeHTTP(recorders[i], vClientRequest("POST", "/work", "n="+rt.Itoa(i), "body-of-"+rt.Itoa(i), h))
			clientDone <- i
		}(i)
	}
	listed := make(chan string, 8)
	pollerDone := make(chan int, nPollers)
	for a := 0; a < nPollers; a++ {
		go func(a int) {
			rt.Daemon()
			for round := 0; round < nClients; round++ {
				for _, id := range vList(p) {
					listed <- id
					req, code := vFetch(p, id)
					rt.Debug("fetched", id[:6], code, req != nil)
					rt.Assert(code == 200 && req != nil, "C01.listed-request-can-be-fetched")
					if req == nil {
						continue
					}
					tag := req.Header.Get("X-Client")
					body := vReadAll(req)
					resp := &http.Response{StatusCode: 200, Proto: "HTTP/1.1", ProtoMajor: 1, ProtoMinor: 1,
						Header: http.Header{"X-Answer-For": []string{tag}}, Body: vBody{strings.NewReader("answer-to-" + body)}, ContentLength: -1}
					pc := vPost(p, id, resp)
					rt.Debug("posted", id[:6], tag, pc)
				}
			}
			pollerDone <- a
		}(a)
	}
	blocked := rt.Quiesce()
	rt.Debug("quiesced", blocked, len(clientDone), len(listed))
	rt.Assert(len(clientDone) == nClients, "C01.every-client-is-answered")
	if len(clientDone) != nClients {
		return
	}
	for i := 0; i < nClients; i++ {
		<-clientDone
	}
	// C04: every request ID was handed to exactly one pending-list reply
	seen := map[string]int{}
	n := len(listed)
	for i := 0; i < n; i++ {
		seen[<-listed]++
	}
	rt.Assert(len(seen) == nClients, "C04.every-request-id-is-listed-and-ids-are-distinct")
	for _, c := range seen {
		rt.Assert(c == 1, "C04.each-request-id-is-handed-to-exactly-one-list-reply")
	}
	// C01: each client got the answer produced for its own request
	for i := 0; i < nClients; i++ {
		w := recorders[i]
		rt.Assert(w.Code == 200, "C01.client-gets-a-response")
		rt.Assert(w.H.Get("X-Answer-For") == "client-"+rt.Itoa(i), "C01.client-gets-the-headers-of-its-own-response")
		rt.Assert(string(w.Body) == "answer-to-body-of-"+rt.Itoa(i), "C01.client-gets-the-body-of-its-own-response")
	}
	rt.Cover("C01.all-clients-checked")
}

// ---------------------------------------------------------------------------
// HS-2: the request the agent fetches is the client's request minus hop-by-hop
// fields.

var vHopNames = []string{"Connection", "Keep-Alive", "Proxy-Authenticate", "Proxy-Authorization", "Te", "Trailer", "Transfer-Encoding", "Upgrade"}
var vEndToEndNames = []string{"Accept", "Cookie", "X-Custom", "Authorization", "Content-Type", "Proxy-Connection"}

func vIsHop(name string) bool {
	for _, h := range vHopNames {
		if strings.EqualFold(h, name) {
			return true
		}
	}
	return false
}

func VerifC02Proxy() {
	p := vSeedProxy
	if rt.Param("history", 1) == 1 && rt.Bool("earlierRequestNamesHeadersInConnection") {
		// an earlier request (of any client) listed field names in its Connection header;
		// that must not influence how later requests are forwarded
		h0 := http.Header{"Connection": []string{"keep-alive, X-Custom, Accept, Cookie"}, "X-Custom": []string{"old"}}
		w0 := rt.NewRecorder()
		done0 := make(chan int, 1)
		go func() {
			p.ServeHTTP(w0, vClientRequest("GET", "/earlier", "", "", h0))
			done0 <- 1
		}()
		for _, id := range vList(p) {
			vPost(p, id, &http.Response{StatusCode: 204, Proto: "HTTP/1.1", ProtoMajor: 1, ProtoMinor: 1, Header: http.Header{}, Body: vBody{strings.NewReader("")}})
		}
		<-done0
		rt.Cover("C02.after-earlier-request")
	}
	hdr := http.Header{}
	n := rt.Int("nheaders", 0, rt.Param("headers", 2))
	for i := 0; i < n; i++ {
		tag := "h" + rt.Itoa(i)
		var name string
		switch rt.Choice(tag+".kind", 2+rt.Param("freeName", 1)) {
		case 0:
			name = vHopNames[rt.Choice(tag+".hop", len(vHopNames))]
		case 1:
			name = vEndToEndNames[rt.Choice(tag+".e2e", len(vEndToEndNames))]
		default:
			name = rt.String(tag+".name", rt.Param("nameCap", 2))
			rt.Assume(rt.ASCII(name))
			rt.Assume(name != "" && http.CanonicalHeaderKey(name) == name && name != "User-Agent" && name != "Host" && name != "Content-Length")
		}
		nv := rt.Int(tag+".nvals", 1, 2)
		for j := 0; j < nv; j++ {
			hdr[name] = append(hdr[name], rt.String(tag+".v"+rt.Itoa(j), rt.Param("valueCap", 1)))
		}
	}
	rt.Assume(len(hdr[utils.HeaderBackendID]) == 0)
	method := []string{"GET", "POST", "PUT", "DELETE"}[rt.Choice("method", 4)]
	body := rt.String("body", rt.Param("bodyCap", 2))
	want := http.Header{}
	for k, v := range hdr {
		if !vIsHop(k) {
			want[k] = append([]string{}, v...)
		}
	}
	w := rt.NewRecorder()
	done := make(chan int, 1)
	go func() {
		p.ServeHTTP(w, vClientRequest(method, "/a b/c", "x=1&y=%2F", body, hdr))
		done <- 1
	}()
	ids := vList(p)
	rt.Assert(len(ids) == 1, "C02.request-is-listed")
	if len(ids) != 1 {
		return
	}
	req, code := vFetch(p, ids[0])
	rt.Assert(code == 200 && req != nil, "C02.request-can-be-fetched")
	if req == nil {
		return
	}
	rt.Assert(req.Method == method, "C02.method-unchanged")
	rt.Assert(req.URL.EscapedPath() == "/a%20b/c" && req.URL.RawQuery == "x=1&y=%2F", "C02.request-target-unchanged")
	rt.Assert(req.Host == "service.example.com", "C02.host-unchanged")
	rt.Assert(vReadAll(req) == body, "C02.body-unchanged")
	for k, v := range want {
		got := req.Header[k]
		rt.Assert(len(got) == len(v), "C02.end-to-end-header-values-all-present")
		for i := range v {
			if i < len(got) {
				rt.Assert(got[i] == v[i], "C02.end-to-end-header-values-in-order")
			}
		}
	}
	for k := range req.Header {
		rt.Assert(!vIsHop(k), "C02.hop-by-hop-headers-are-not-forwarded")
		_, sent := hdr[k]
		rt.Assert(sent || k == "User-Agent", "C02.only-default-fields-are-added")
	}
	rt.Cover("C02.fetched-request-checked")
	vPost(p, ids[0], &http.Response{StatusCode: 204, Proto: "HTTP/1.1", ProtoMajor: 1, ProtoMinor: 1, Header: http.Header{}, Body: vBody{strings.NewReader("")}})
	<-done
}

// ---------------------------------------------------------------------------
// HS-3: the client receives the uploaded response unaltered (minus hop-by-hop).

func VerifC03Proxy() {
	p := vSeedProxy
	hdr := http.Header{}
	n := rt.Int("nheaders", 0, rt.Param("headers", 2))
	names := append(append([]string{}, vHopNames...), "Set-Cookie", "Content-Type", "X-Custom")
	for i := 0; i < n; i++ {
		tag := "h" + rt.Itoa(i)
		name := names[rt.Choice(tag+".name", len(names))]
		rt.Assume(name != "Transfer-Encoding" && name != "Trailer")
		nv := rt.Int(tag+".nvals", 1, 2)
		for j := 0; j < nv; j++ {
			hdr[name] = append(hdr[name], rt.String(tag+".v"+rt.Itoa(j), rt.Param("valueCap", 1)))
		}
	}
	status := rt.Int("status", 200, 599)
	body := rt.String("body", rt.Param("bodyCap", 2))
	trailer := http.Header{}
	wantTrailer := http.Header{}
	nt := rt.Int("ntrailers", 0, 2)
	announced := rt.Bool("trailersAnnounced")
	tnames := []string{"X-Checksum", "Grpc-Status"}
	for i := 0; i < nt; i++ {
		wantTrailer[tnames[i]] = []string{rt.String("t"+rt.Itoa(i), 1)}
		if announced {
			trailer[tnames[i]] = wantTrailer[tnames[i]]
		}
	}
	wantHdr := http.Header{}
	for k, v := range hdr {
		if !vIsHop(k) {
			wantHdr[k] = append([]string{}, v...)
		}
	}
	w := rt.NewRecorder()
	done := make(chan int, 1)
	go func() {
		p.ServeHTTP(w, vClientRequest("GET", "/", "", "", nil))
		done <- 1
	}()
	ids := vList(p)
	rt.Assert(len(ids) == 1, "C03.request-is-listed")
	if len(ids) != 1 {
		return
	}
	resp := &http.Response{StatusCode: status, Proto: "HTTP/1.1", ProtoMajor: 1, ProtoMinor: 1, Header: hdr, ContentLength: -1, Trailer: trailer}
	// unannounced trailers only appear once the body has been written
	resp.Body = &vEOFBody{r: strings.NewReader(body), atEOF: func() {
		for k, v := range wantTrailer {
			trailer[k] = v
		}
	}}
	vPost(p, ids[0], resp)
	<-done
	rt.Assert(w.Code == status, "C03.status-unchanged")
	rt.Assert(string(w.Body) == body, "C03.body-unchanged")
	for k, v := range wantHdr {
		got := w.H[k]
		rt.Assert(len(got) == len(v), "C03.end-to-end-header-values-all-present")
		for i := range v {
			if i < len(got) {
				rt.Assert(got[i] == v[i], "C03.end-to-end-header-values-in-order")
			}
		}
	}
	for k := range w.H {
		if strings.HasPrefix(k, http.TrailerPrefix) || strings.EqualFold(k, "Transfer-Encoding") {
			continue
		}
		rt.Assert(!vIsHop(k), "C03.hop-by-hop-headers-are-not-forwarded")
		_, sent := hdr[k]
		rt.Assert(sent, "C03.no-header-is-invented")
	}
	for k, v := range wantTrailer {
		got := w.H[http.TrailerPrefix+k]
		rt.Assert(len(got) == 1 && got[0] == v[0], "C03.trailers-are-delivered-as-trailers")
	}
	if nt > 0 && !announced {
		rt.Cover("C03.unannounced-trailers")
		// net/http's server only transmits trailers that were not declared before the
		// header block when the response is chunked (a handler gets that by setting
		// Transfer-Encoding itself or by flushing); otherwise it computes a
		// Content-Length for short bodies and the trailers are dropped
		rt.Assert(strings.EqualFold(w.H.Get("Transfer-Encoding"), "chunked") || w.Flushed > 0, "C03.unannounced-trailers-are-deliverable")
	}
	rt.Cover("C03.client-response-checked")
	_ = context.Background
}

// ---------------------------------------------------------------------------
// HS-1c (C01): a client disconnects while the agent's upload of its response is
// already open; a later client must still receive its own response only.

type vGatedBody struct {
	data    *strings.Reader
	release chan struct{}
	opened  bool
}

func (b *vGatedBody) Read(p []byte) (int, error) {
	if !b.opened {
		<-b.release // the response head only arrives later
		b.opened = true
	}
	return b.data.Read(p)
}
func (b *vGatedBody) Close() error { return nil }

func VerifC01Disconnect() {
	p := vSeedProxy
	// client A, with a cancellable context
	ctxA, cancelA := context.WithCancel(context.Background())
	recA := rt.NewRecorder()
	doneA := make(chan int, 1)
	go func() {
		h := http.Header{}
		h.Set("X-Client", "A")
		r := vClientRequest("GET", "/one", "", "", h)
		p.ServeHTTP(recA, r.WithContext(ctxA))
		doneA <- 1
	}()
	idsA := vList(p)
	rt.Assert(len(idsA) == 1, "C01.first-request-listed")
	if len(idsA) != 1 {
		return
	}
	reqA, _ := vFetch(p, idsA[0])
	rt.Assert(reqA != nil && reqA.Header.Get("X-Client") == "A", "C01.first-request-fetched")
	// the agent opens the upload for A before the backend has answered
	var wire bytes.Buffer
	(&http.Response{StatusCode: 200, Proto: "HTTP/1.1", ProtoMajor: 1, ProtoMinor: 1, Header: http.Header{"X-Answer-For": []string{"A"}},
		Body: vBody{strings.NewReader("body-for-A")}, ContentLength: -1}).Write(&wire)
	gate := &vGatedBody{data: strings.NewReader(wire.String()), release: make(chan struct{})}
	uploadDone := make(chan int, 1)
	go func() {
		rt.Daemon()
		req := vAgentRequest("POST", idsA[0], "")
		req.Body = gate
		p.ServeHTTP(rt.NewRecorder(), req)
		uploadDone <- 1
	}()
	rt.Quiesce()
	// A gives up
	if rt.Bool("clientADisconnects") {
		cancelA()
		rt.Quiesce()
		rt.Cover("C01.client-disconnected")
	}
	// client B arrives
	recB := rt.NewRecorder()
	doneB := make(chan int, 1)
	go func() {
		h := http.Header{}
		h.Set("X-Client", "B")
		p.ServeHTTP(recB, vClientRequest("GET", "/two", "", "", h))
		doneB <- 1
	}()
	idsB := vList(p)
	rt.Assert(len(idsB) == 1 && idsB[0] != idsA[0], "C01.second-request-listed-under-its-own-id")
	// the backend finally answers A: the upload proceeds
	close(gate.release)
	rt.Quiesce()
	if len(doneB) == 1 {
		rt.Assert(recB.H.Get("X-Answer-For") != "A" && string(recB.Body) != "body-for-A", "C01.late-response-is-never-delivered-to-another-client")
	}
	// B's own response
	if len(idsB) == 1 && len(doneB) == 0 {
		vPost(p, idsB[0], &http.Response{StatusCode: 200, Proto: "HTTP/1.1", ProtoMajor: 1, ProtoMinor: 1, Header: http.Header{"X-Answer-For": []string{"B"}},
			Body: vBody{strings.NewReader("body-for-B")}, ContentLength: -1})
		rt.Quiesce()
	}
	rt.Assert(len(doneB) == 1 && recB.H.Get("X-Answer-For") == "B" && string(recB.Body) == "body-for-B", "C01.later-client-gets-exactly-its-own-response")
	rt.Cover("C01.disconnect-scenario-checked")
	_ = doneA
	_ = uploadDone
}

type vEOFBody struct {
	r     *strings.Reader
	atEOF func()
	done  bool
}

func (b *vEOFBody) Read(p []byte) (int, error) {
	n, err := b.r.Read(p)
	if err != nil && !b.done {
		b.done = true
		b.atEOF()
	}
	return n, err
}
func (b *vEOFBody) Close() error { return nil }
