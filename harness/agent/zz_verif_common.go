//go:build verif

package main

// Shared pieces of the agent-package harnesses: a scripted backend behind the
// real handler chain built by hostProxy() (the real httputil.ReverseProxy is
// interpreted; its transport, http.DefaultTransport, is replaced by the
// harness's backend), and a scripted proxy behind the agent's http.Client.

import (
	"io"
	"net/http"
	"strings"

	rt "github.com/google/inverting-proxy/zzverifrt"
)

// vBackend stands for the network hop to the backend server: it records the
// request the backend would receive and answers with a scripted response.
type vBackend struct {
	seen    []*http.Request
	bodies  []string
	respond func(r *http.Request) (*http.Response, error)
}

func (b *vBackend) RoundTrip(r *http.Request) (*http.Response, error) {
	body := ""
	if r.Body != nil {
		bs, _ := io.ReadAll(r.Body)
		body = string(bs)
	}
	b.seen = append(b.seen, r)
	b.bodies = append(b.bodies, body)
	if b.respond != nil {
		return b.respond(r)
	}
	return vResponse(r, 204, nil, ""), nil
}

type vBody struct{ r *strings.Reader }

func (b vBody) Read(p []byte) (int, error) { return b.r.Read(p) }
func (b vBody) Close() error               { return nil }

func vResponse(r *http.Request, code int, h http.Header, body string) *http.Response {
	if h == nil {
		h = http.Header{}
	}
	return &http.Response{StatusCode: code, Proto: "HTTP/1.1", ProtoMajor: 1, ProtoMinor: 1, Header: h,
		Body: vBody{strings.NewReader(body)}, ContentLength: int64(len(body)), Request: r}
}

// vProxySink stands for the inverting proxy behind the agent's client: it
// drains response uploads and acknowledges them.
type vProxySink struct {
	uploads int
}

func (s *vProxySink) RoundTrip(req *http.Request) (*http.Response, error) {
	if req.Body != nil {
		buf := make([]byte, 64)
		for {
			if _, err := req.Body.Read(buf); err != nil {
				break
			}
		}
	}
	s.uploads++
	return &http.Response{StatusCode: 200, Body: http.NoBody, Header: http.Header{}}, nil
}

func vResetFlags() {
	*proxy = "http://proxy.invalid/"
	*host = "backend.invalid:8080"
	*debug = false
	*forwardUserID = false
	*stripCredentials = false
	*injectBanner = ""
	*rewriteWebsocketHost = false
	*enableWebsocketsInjection = false
	sessionLRU = nil
	metricHandler = nil
	rt.InstallMuxModel()
	rt.InstallPublicSuffixModel()
}
