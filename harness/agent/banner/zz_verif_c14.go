//go:build verif

package banner

// Harness HB-14a (C14): banner injection touches HTML documents only. The real
// Proxy handler and bannerResponseWriter run with symbolic request method and
// headers, symbolic response status, content types and disposition, and a
// backend that writes its body in two chunks through the wrapped writer.

import (
	"context"
	"net/http"
	"net/url"
	"strings"

	rt "github.com/google/inverting-proxy/zzverifrt"
)

const c14Banner = "<b>BANNER</b>"

func c14CloneHeader(h http.Header) http.Header {
	c := http.Header{}
	for k, v := range h {
		c[k] = append([]string{}, v...)
	}
	return c
}

func c14SameHeader(a, b http.Header) bool {
	if len(a) != len(b) {
		return false
	}
	for k, v := range a {
		w, ok := b[k]
		if !ok || len(v) != len(w) {
			return false
		}
		for i := range v {
			if v[i] != w[i] {
				return false
			}
		}
	}
	return true
}

func VerifC14Banner() {
	rt.InstallMuxModel()
	method := rt.String("method", 4)
	accept := rt.String("accept", rt.Param("acceptCap", 10))
	status := rt.Int("status", 100, 599)
	var backendHeader http.Header
	body1, body2 := "<html><head>", "</head>doc</html>"
	backend := http.HandlerFunc(func(w http.ResponseWriter, r *http.Request) {
		nct := rt.Int("ncontentTypes", 0, 2)
		for i := 0; i < nct; i++ {
			w.Header().Add("Content-Type", rt.String("contentType"+rt.Itoa(i), rt.Param("contentTypeCap", 22)))
		}
		if rt.Bool("hasDisposition") {
			w.Header().Add("Content-Disposition", rt.String("disposition", rt.Param("dispositionCap", 11)))
		}
		w.Header().Set("X-Backend", "yes")
		w.Header().Set("Content-Encoding", "identity")
		backendHeader = c14CloneHeader(w.Header())
		if rt.Bool("explicitWriteHeader") {
			w.WriteHeader(status)
		} else {
			rt.Assume(status == 200)
		}
		w.Write([]byte(body1))
		w.Write([]byte(body2))
	})
	h, err := Proxy(context.Background(), backend, c14Banner, "40px", "", nil)
	rt.Assert(err == nil, "C14.proxy-built")

	u := &url.URL{Path: "/docs/page", RawQuery: "q=1"}
	hdr := http.Header{}
	if accept != "" {
		hdr.Set("Accept", accept)
	}
	framedBy := rt.Choice("framed", 6)
	switch framedBy {
	case 1:
		hdr.Set("Sec-Fetch-Mode", "nested-navigate")
	case 2:
		hdr.Set("Sec-Fetch-Dest", "iframe")
	case 3:
		hdr.Set("Referer", "https://front.example.com/docs/page?x=y") // same host and path
	case 4:
		hdr.Set("Referer", "https://front.example.com/other") // same host, other path
	case 5:
		hdr.Set("Referer", "https://elsewhere.example.com/docs/page")
	}
	framed := framedBy >= 1 && framedBy <= 3
	r := &http.Request{Method: method, URL: u, Host: "front.example.com", Header: hdr, Proto: "HTTP/1.1", ProtoMajor: 1, ProtoMinor: 1}
	w := rt.NewRecorder()
	h.ServeHTTP(w, r)

	// the statement's conditions, evaluated independently on what the backend produced
	htmlRequest := method == "GET" && strings.Contains(accept, "text/html")
	attachment := false
	for _, d := range backendHeader["Content-Disposition"] {
		attachment = attachment || strings.Contains(d, "attachment")
	}
	htmlType := false
	for _, ct := range backendHeader["Content-Type"] {
		htmlType = htmlType || strings.Contains(ct, "text/html") || strings.Contains(ct, "application/xhtml+xml")
	}
	frameable := htmlRequest && status == 200 && !attachment && htmlType
	original := body1 + body2
	got := string(w.Body)
	rt.Assert(w.Code == status, "C14.status-unchanged")
	if got != original {
		rt.Cover("C14.banner-served")
		rt.Assert(frameable && !framed, "C14.body-altered-only-for-a-frameable-html-reply-to-an-html-get")
		rt.Assert(strings.Contains(got, "src=\"/docs/page?q=1\"") && strings.Contains(got, c14Banner), "C14.frame-embeds-the-requested-url-and-the-banner")
	} else {
		rt.Cover("C14.body-untouched")
		rt.Assert(!(frameable && !framed), "C14.frameable-html-reply-gets-the-banner-frame")
	}
	if frameable && !framed {
		// a later request for the same path with another query is framed around its own URL
		r2 := &http.Request{Method: method, URL: &url.URL{Path: "/docs/page", RawQuery: "q=2"}, Host: "front.example.com", Header: hdr, Proto: "HTTP/1.1", ProtoMajor: 1, ProtoMinor: 1}
		w2 := rt.NewRecorder()
		h.ServeHTTP(w2, r2)
		rt.Cover("C14.second-request")
		rt.Assert(strings.Contains(string(w2.Body), "src=\"/docs/page?q=2\""), "C14.every-frame-embeds-its-own-requested-url")
	}
	if frameable {
		rt.Assert(strings.HasPrefix(w.H.Get("Cache-Control"), "no-cache") && w.H.Get("Pragma") == "no-cache" && w.H.Get("X-Frame-Options") == "sameorigin", "C14.framed-html-is-uncacheable-and-sameorigin")
		if framed {
			rt.Cover("C14.already-framed-gets-original")
		}
	} else {
		rt.Assert(c14SameHeader(w.H, backendHeader), "C14.headers-unchanged-for-non-html")
	}
}
