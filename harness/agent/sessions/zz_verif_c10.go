//go:build verif

package sessions

// Harnesses for C10 (session tracking hides backend cookies and never mixes
// sessions). The session handler, its response writer and the LRU of jars are
// the repository's code (and groupcache's lru), the cookie jar is the real
// net/http/cookiejar (interpreted) over a model of the public-suffix list, and
// cookie parsing / printing is the real net/http code.

import (
	"net/http"
	"net/url"
	"strings"
	"sync"
	"time"

	rt "github.com/google/inverting-proxy/zzverifrt"
)

const c10CookieName = "proxy-session"

// backend behaviour per request: which Set-Cookie lines it emits
var c10BackendLines = [][]string{
	{},
	{"a=1"},
	{"a=2; Path=/app"},
	{"b=3; Path=/", "a=4"},
	{"a=gone; Max-Age=-1"},
	{"prefs[theme]=dark"},             // a name Go's cookie parser rejects
	{"a=5; Secure; HttpOnly"},
	{"d=6; Domain=example.com"},
}

type c10Backend struct {
	lines    []string
	seenRaw  []string // Cookie header values the backend received
	requests int
}

func (b *c10Backend) ServeHTTP(w http.ResponseWriter, r *http.Request) {
	b.requests++
	b.seenRaw = append([]string{}, r.Header["Cookie"]...)
	for _, l := range b.lines {
		w.Header().Add("Set-Cookie", l)
	}
	w.Header().Set("X-Backend", "yes")
	w.WriteHeader(200)
	w.Write([]byte("ok"))
}

// reference model of one session's jar (RFC 6265 subset: host-only cookies,
// path scoping, deletion through Max-Age<0; domain cookies for the request host
// or its parent are treated alike because every request uses the same host)
type c10RefCookie struct{ name, value, path string }

func c10DefaultPath(p string) string {
	if p == "" || p[0] != '/' {
		return "/"
	}
	i := strings.LastIndex(p, "/")
	if i == 0 {
		return "/"
	}
	return p[:i]
}

func c10PathMatch(reqPath, cookiePath string) bool {
	if reqPath == cookiePath {
		return true
	}
	if strings.HasPrefix(reqPath, cookiePath) {
		return cookiePath[len(cookiePath)-1] == '/' || reqPath[len(cookiePath)] == '/'
	}
	return false
}

func c10Apply(jar []c10RefCookie, reqPath string, lines []string) []c10RefCookie {
	for _, l := range lines {
		parts := strings.Split(l, "; ")
		nv := strings.SplitN(parts[0], "=", 2)
		if strings.ContainsAny(nv[0], "[]") {
			continue // rejected by the parser: never reaches the jar
		}
		c := c10RefCookie{name: nv[0], value: nv[1], path: c10DefaultPath(reqPath)}
		del := false
		for _, a := range parts[1:] {
			if strings.HasPrefix(a, "Path=") {
				c.path = a[5:]
			}
			if a == "Max-Age=-1" {
				del = true
			}
		}
		var out []c10RefCookie
		for _, o := range jar {
			if !(o.name == c.name && o.path == c.path) {
				out = append(out, o)
			}
		}
		if !del {
			out = append(out, c)
		}
		jar = out
	}
	return jar
}

func c10Pairs(raw []string) map[string]bool {
	m := map[string]bool{}
	for _, line := range raw {
		for _, p := range strings.Split(line, "; ") {
			if p != "" {
				m[p] = true
			}
		}
	}
	return m
}

// VerifC10History (HSe-10a): a symbolic history of requests over up to two
// sessions.
func VerifC10History() {
	rt.InstallPublicSuffixModel()
	disableSSL := rt.Bool("disableSSLForTest")
	timeout := 12 * time.Hour
	c := NewCache(c10CookieName, timeout, 10, disableSSL)
	backend := &c10Backend{}
	h := c.SessionHandler(backend, nil)

	var sessions []string          // session ids the agent has issued
	ref := map[string][]c10RefCookie{} // reference jars
	n := rt.Param("requests", 3)
	for i := 0; i < n; i++ {
		tag := "q" + rt.Itoa(i)
		// which session cookie the client presents: none, a previously issued one, an empty or a foreign value
		pick := rt.Choice(tag+".session", 2+len(sessions)+1)
		sid, present := "", false
		switch {
		case pick == 0:
		case pick == 1:
			sid, present = "foreign-value", true
		case pick == 2+len(sessions):
			sid, present = "", true // "proxy-session=" with an empty value
		default:
			sid, present = sessions[pick-2], true
		}
		path := []string{"/", "/app/page", "/other"}[rt.Choice(tag+".path", 3)]
		r := &http.Request{Method: "GET", URL: &url.URL{Path: path}, Host: "svc.example.com", Header: http.Header{}, Proto: "HTTP/1.1", ProtoMajor: 1, ProtoMinor: 1}
		extra := rt.Bool(tag + ".clientCookie")
		var cookieParts []string
		if extra {
			cookieParts = append(cookieParts, "pref=x"+rt.Itoa(i))
		}
		if present {
			cookieParts = append(cookieParts, c10CookieName+"="+sid)
		}
		if len(cookieParts) > 0 {
			r.Header.Set("Cookie", strings.Join(cookieParts, "; "))
		}
		backend.lines = c10BackendLines[rt.Choice(tag+".backendSets", len(c10BackendLines))]
		w := rt.NewRecorder()
		now := time.Now()
		h.ServeHTTP(w, r)
		rt.Assert(backend.requests == i+1 && w.Code == 200, "C10.request-reaches-the-backend")

		// what the client sees
		issued := ""
		for _, sc := range w.H["Set-Cookie"] {
			rt.Assert(strings.HasPrefix(sc, c10CookieName+"="), "C10.client-never-sees-a-backend-set-cookie")
			if strings.HasPrefix(sc, c10CookieName+"=") {
				rt.Assert(issued == "", "C10.at-most-one-session-cookie-per-response")
				parsed := (&http.Response{Header: http.Header{"Set-Cookie": []string{sc}}}).Cookies()
				rt.Assert(len(parsed) == 1, "C10.session-cookie-is-well-formed")
				if len(parsed) == 1 {
					k := parsed[0]
					issued = k.Value
					rt.Assert(k.HttpOnly && k.Path == "/" && k.Secure == !disableSSL, "C10.session-cookie-attributes")
					rt.Assert(k.Expires.Equal(now.Add(timeout).Truncate(time.Second)), "C10.session-cookie-expires-after-the-configured-lifetime")
				}
			}
		}
		if sid == "" {
			// no session cookie, or one with an empty value: the client has no session yet
			rt.Cover("C10.new-session")
			rt.Assert(issued != "", "C10.client-without-session-gets-a-session-cookie")
		} else {
			rt.Assert(issued == "", "C10.session-cookie-issued-only-to-clients-that-presented-none")
		}
		rt.Assert(w.H.Get("X-Backend") == "yes", "C10.other-response-headers-pass")

		// what the backend saw: the client's other cookies plus the session's jar for this URL
		effective := sid
		got := c10Pairs(backend.seenRaw)
		want := map[string]bool{}
		if extra {
			want["pref=x"+rt.Itoa(i)] = true
		}
		if effective != "" { // a client without a session has no jar: it must never see anybody's cookies
			for _, k := range ref[effective] {
				if c10PathMatch(path, k.path) {
					want[k.name+"="+k.value] = true
				}
			}
		}
		for p := range got {
			rt.Assert(!strings.HasPrefix(p, c10CookieName+"="), "C10.backend-never-sees-the-session-cookie")
			rt.Assert(want[p], "C10.backend-sees-no-cookie-of-another-session-or-origin")
		}
		for p := range want {
			rt.Assert(got[p], "C10.backend-sees-the-sessions-cookies-and-the-clients-own")
		}
		if len(ref[effective]) > 0 && present {
			rt.Cover("C10.session-cookies-restored")
		}
		// the backend's Set-Cookie lines go to the jar of this request's session
		target := effective
		if issued != "" {
			target = issued
			sessions = append(sessions, issued)
		}
		ref[target] = c10Apply(ref[target], path, backend.lines)
	}
}

// VerifC10Concurrent (HSe-10b): two requests at once, in the same or in
// different sessions: no data race, no crash, sessions not mixed.
func VerifC10Concurrent() {
	rt.InstallPublicSuffixModel()
	c := NewCache(c10CookieName, time.Hour, 10, false)
	// two sessions created sequentially, each with a cookie of its own
	ids := make([]string, 2)
	for i := range ids {
		backend := &c10Backend{lines: []string{"who=s" + rt.Itoa(i)}}
		w := rt.NewRecorder()
		c.SessionHandler(backend, nil).ServeHTTP(w, &http.Request{Method: "GET", URL: &url.URL{Path: "/"}, Host: "svc.example.com", Header: http.Header{}})
		for _, sc := range w.H["Set-Cookie"] {
			ids[i] = strings.TrimPrefix(strings.SplitN(sc, ";", 2)[0], c10CookieName+"=")
		}
		rt.Assert(ids[i] != "", "C10.session-created")
	}
	same := rt.Bool("sameSession")
	var wg sync.WaitGroup
	seen := make([][]string, 2)
	for t := 0; t < 2; t++ {
		wg.Add(1)
		go func(t int) {
			defer wg.Done()
			k := t
			if same {
				k = 0
			}
			backend := &c10Backend{}
			r := &http.Request{Method: "GET", URL: &url.URL{Path: "/"}, Host: "svc.example.com", Header: http.Header{"Cookie": []string{c10CookieName + "=" + ids[k]}}}
			c.SessionHandler(backend, nil).ServeHTTP(rt.NewRecorder(), r)
			seen[t] = backend.seenRaw
		}(t)
	}
	wg.Wait()
	for t := 0; t < 2; t++ {
		k := t
		if same {
			k = 0
		}
		got := c10Pairs(seen[t])
		rt.Assert(got["who=s"+rt.Itoa(k)] && len(got) == 1, "C10.concurrent-requests-see-exactly-their-own-sessions-cookies")
	}
	rt.Cover("C10.concurrent-done")
}
