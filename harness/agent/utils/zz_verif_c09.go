//go:build verif

package utils

import (
	"bytes"
	"io"
	"net/http"
	"net/url"
	"strings"
	"time"

	rt "github.com/google/inverting-proxy/zzverifrt"
)

type c09Body struct{ io.Reader }

func (c09Body) Close() error { return nil }

// VerifC09Parse (HU-9): the identity the agent attributes to a fetched request
// is exactly what the proxy asserted in its fetch reply — the empty identity
// when the proxy asserted none — whatever identity headers (any casing, any
// value) the client put into its own, serialised request.
func VerifC09Parse() {
	hdr := http.Header{}
	hdr.Set(HeaderRequestStartTime, time.Now().Format(time.RFC3339Nano))
	asserted := ""
	if rt.Bool("proxyAssertsIdentity") {
		asserted = rt.String("assertedUser", rt.Param("valueCap", 2))
		rt.Assume(rt.ASCII(asserted) && !strings.ContainsAny(asserted, "\r\n"))
		hdr.Set(HeaderUserID, asserted)
	} else {
		rt.Cover("C09.proxy-asserts-no-identity")
	}
	forgedName := []string{"X-Inverting-Proxy-User-Id", "x-inverting-proxy-user-id", "X-INVERTING-PROXY-USER-ID", "X-Other"}[rt.Choice("forged.name", 4)]
	creq := &http.Request{Method: "GET", URL: &url.URL{Path: "/p"}, Host: "client.invalid", Header: http.Header{forgedName: []string{"mallory"}},
		Proto: "HTTP/1.1", ProtoMajor: 1, ProtoMinor: 1, Body: http.NoBody}
	var wire bytes.Buffer
	rt.Assert(creq.Write(&wire) == nil, "C09.client-request-serialised")
	resp := &http.Response{StatusCode: 200, Header: hdr, Body: c09Body{bytes.NewReader(wire.Bytes())}}
	fr, err := parseRequestFromProxyResponse("b", "r", resp, nil)
	rt.Assert(err == nil && fr != nil, "C09.fetch-reply-parsed")
	if fr == nil {
		return
	}
	rt.Assert(fr.User == asserted, "C09.attributed-identity-is-exactly-the-proxy-asserted-one")
}
