//go:build verif

package utils

// Harnesses HU-6a / HU-6b (property C06): the real postResponseWithRetries and
// bufferedReadSeeker against a scripted transport (model M-transport) and a
// scripted source stream. Everything returned by rt.* is symbolic in the engine.

import (
	"bytes"
	"errors"
	"io"
	"net/http"

	rt "github.com/google/inverting-proxy/zzverifrt"
)

// c06Source delivers data in pieces of symbolic size, then EOF.
type c06Source struct {
	data  []byte
	pos   int
	reads int
	max   int
}

func (s *c06Source) Read(p []byte) (int, error) {
	if s.pos >= len(s.data) {
		return 0, io.EOF
	}
	if len(p) == 0 {
		return 0, nil
	}
	n := rt.Int("src.piece."+rt.Itoa(s.reads), 1, s.max)
	s.reads++
	// constrain instead of clamping: an assumption does not fork the search
	rt.Assume(n <= len(p))
	rt.Assume(n <= len(s.data)-s.pos)
	copy(p, s.data[s.pos:s.pos+n])
	s.pos += n
	return n, nil
}

type c06Attempt struct {
	seen          []byte
	eof           bool
	outcome       int // 0 transport error, 1 5xx, 2 success (200), 3 client error (400)
	srcPosAtStart int
}

type c06Transport struct {
	src        *c06Source
	bufCap     int
	attempts   []*c06Attempt
	stale      int // stale reads performed so far
	allowStale int
	maxReads   int
}

// staleRead: a reader of an earlier, failed attempt that is still running
// (net/http's writeLoop) performs one more Read; its bytes go nowhere.
func (t *c06Transport) staleRead(body io.Reader, tag string) {
	if len(t.attempts) == 0 || t.stale >= t.allowStale {
		return
	}
	if !rt.Bool("stale." + tag) {
		return
	}
	t.stale++
	buf := make([]byte, t.bufCap+t.src.max)
	body.Read(buf)
}

func (t *c06Transport) RoundTrip(req *http.Request) (*http.Response, error) {
	a := &c06Attempt{srcPosAtStart: t.src.pos}
	idx := len(t.attempts)
	tag := rt.Itoa(idx)
	t.staleRead(req.Body, tag+".pre")
	t.attempts = append(t.attempts, a)
	nReads := rt.Int("att."+tag+".reads", 0, t.maxReads)
	for i := 0; i < nReads && !a.eof; i++ {
		// net/http copies the body with a 32 KiB buffer, i.e. never smaller than the replay buffer.
		buf := make([]byte, t.bufCap+t.src.max)
		n, err := req.Body.Read(buf)
		a.seen = append(a.seen, buf[:n]...)
		if err == io.EOF {
			a.eof = true
		} else if err != nil {
			break
		}
		if idx > 0 {
			t.staleRead(req.Body, tag+".mid"+rt.Itoa(i))
		}
	}
	a.outcome = rt.Int("att."+tag+".outcome", 0, 3)
	// A proxy that acknowledges success has read the whole body.
	if a.outcome == 2 {
		rt.Assume(a.eof)
	}
	switch a.outcome {
	case 0:
		return nil, errors.New("injected transport error")
	case 1:
		return &http.Response{StatusCode: 503, Body: http.NoBody, Header: http.Header{}}, nil
	case 2:
		return &http.Response{StatusCode: 200, Body: http.NoBody, Header: http.Header{}}, nil
	}
	return &http.Response{StatusCode: 400, Body: http.NoBody, Header: http.Header{}}, nil
}

// VerifC06Retries (HU-6a): no stale reads.
func VerifC06Retries() { verifC06(0) }

// VerifC06Stale (HU-6b) additionally lets a failed attempt's reader read again.
func VerifC06Stale() { verifC06(rt.Param("staleReads", 1)) }

func verifC06(allowStale int) {
	maxStream := rt.Param("maxStream", 6)
	data := rt.Bytes("stream", maxStream)
	src := &c06Source{data: data, max: maxStream}
	tr := &c06Transport{src: src, bufCap: readResponseBufSize, allowStale: allowStale, maxReads: rt.Param("maxReads", 3)}
	client := &http.Client{Transport: tr}
	err := postResponseWithRetries(client, "http://proxy.invalid/agent/response", "b", "r", src)
	rt.Known("C06-stale-reader", tr.stale > 0)

	rt.Assert(len(tr.attempts) <= 3, "C06.at-most-three-attempts")
	for i, a := range tr.attempts {
		if a.outcome == 2 {
			rt.Cover("C06.acked-attempt")
			if i > 0 {
				rt.Cover("C06.acked-retry")
			}
			rt.Assert(bytes.Equal(a.seen, data), "C06.acked-attempt-carried-complete-stream")
		}
		if i > 0 {
			// A retry is only allowed while everything consumed so far can be replayed.
			rt.Assert(a.srcPosAtStart <= readResponseBufSize, "C06.retry-only-while-replayable")
			if tr.stale == 0 {
				rt.Assert(bytes.HasPrefix(data, a.seen), "C06.retry-replays-from-first-byte")
			}
		}
	}
	last := tr.attempts[len(tr.attempts)-1]
	if last.outcome == 0 {
		rt.Assert(err != nil, "C06.transport-error-reported")
	}
	if last.outcome == 2 || last.outcome == 3 {
		rt.Assert(err == nil, "C06.answered-attempt-ends-the-upload")
	}
	if src.pos > readResponseBufSize && len(tr.attempts) == 1 && last.outcome < 2 {
		rt.Cover("C06.seek-refused")
	}
	rt.Observe("attempts", len(tr.attempts), err != nil)
}
