//go:build verif

package utils

import (
	"time"

	rt "github.com/google/inverting-proxy/zzverifrt"
)

// VerifC08Backoff (HU-8): every retry count in the full unsigned range and every
// jitter draw. The oracle is computed in exact integer arithmetic from the
// property statement: the delay doubles from 1 ms, is capped at 3 s, jitter
// within +-10%, strictly positive.
func VerifC08Backoff() {
	n := rt.Uint64("n")
	d := ExponentialBackoffDuration(uint(n))
	var t int64
	if n <= 11 {
		t = int64(time.Millisecond) << n
	} else {
		t = int64(3 * time.Second)
	}
	rt.Cover("C08.evaluated")
	rt.Observe("capped", n > 11) // the jitter draw is real randomness natively, so the delay itself is not comparable
	rt.Assert(d > 0, "C08.strictly-positive")
	rt.Assert(int64(d)*10 >= t*9-10, "C08.at-least-90-percent")
	rt.Assert(int64(d)*10 <= t*11, "C08.at-most-110-percent")
}
