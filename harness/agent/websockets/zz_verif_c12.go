//go:build verif

package websockets

// Harnesses for C12 (the shim answers every call and survives any call order)
// and C11 (messages are delivered once, in order, unchanged).
//
// The shim handlers are the real closures of createShimChannel, reached through
// the real Proxy wiring; the backend websocket is the engine's message-queue
// model M-ws (the agent side is dialled by the real NewConnection, the harness
// holds the peer end).

import (
	"context"
	"encoding/json"
	"net/http"
	"net/url"
	"strings"

	"github.com/google/inverting-proxy/agent/metrics"
	rt "github.com/google/inverting-proxy/zzverifrt"
	"github.com/gorilla/websocket"
)

type shimEnv struct {
	h       http.Handler
	backend *websocket.Conn // peer end of the most recent dial
}

func newShimEnv(injection bool) *shimEnv {
	rt.InstallMuxModel()
	identity := func(h http.Handler, _ *metrics.MetricHandler) http.Handler { return h }
	passthrough := http.HandlerFunc(func(w http.ResponseWriter, r *http.Request) { w.WriteHeader(204) })
	h, err := Proxy(context.Background(), passthrough, "backend.invalid:8080", "shim", false, injection, identity, nil)
	rt.Assert(err == nil, "shim.proxy-built")
	return &shimEnv{h: h}
}

func (s *shimEnv) call(endpoint, body string, hdr http.Header) *rt.Recorder {
	if hdr == nil {
		hdr = http.Header{}
	}
	r := &http.Request{Method: "POST", URL: &url.URL{Path: "/shim/" + endpoint}, Header: hdr, Host: "front.invalid",
		Body: c13Body{strings.NewReader(body)}, Proto: "HTTP/1.1", ProtoMajor: 1, ProtoMinor: 1}
	w := rt.NewRecorder()
	s.h.ServeHTTP(w, r)
	return w
}

// open performs a shim open and returns the session id of the reply.
func (s *shimEnv) open(version string) (string, *rt.Recorder) {
	hdr := http.Header{}
	if version != "" {
		hdr.Set("X-Websocket-Shim-Version", version)
	}
	n := rt.WSDials()
	w := s.call("open", "ws://front.invalid/socket", hdr)
	if w.Code != 200 {
		return "", w
	}
	var reply sessionMessage
	if json.Unmarshal(w.Body, &reply) != nil {
		return "", w
	}
	if rt.WSDials() == n+1 {
		s.backend, _ = rt.WSDialPeer(n).(*websocket.Conn)
	}
	return reply.ID, w
}

func sidBody(id string) string {
	b, _ := json.Marshal(&sessionMessage{ID: id})
	return string(b)
}

func dataBody(id string, msgs ...interface{}) string {
	var batch []sessionMessage
	for _, m := range msgs {
		batch = append(batch, sessionMessage{ID: id, Message: m})
	}
	b, _ := json.Marshal(batch)
	return string(b)
}

func answered(code int) bool { return code == 200 || code == 400 || code == 408 || code == 500 }

// VerifC12History (HW-12a): one caller, a symbolic sequence of operations over
// {data, poll, close, backend-send, backend-close, open} with valid, unknown and
// malformed arguments. Every call is answered; unknown or closed sessions are
// rejected with 400; closing closes the backend websocket; after a backend
// close the polls deliver what was received and then report the session closed.
func VerifC12History() {
	env := newShimEnv(false)
	sid, w := env.open("")
	rt.Assert(w.Code == 200 && sid != "", "C12.open-answered-200")
	if sid == "" {
		return
	}
	n := rt.Param("ops", 3)
	closed := false        // the client closed the session
	backendClosed := false // the backend closed its end
	reported := false      // a poll already reported the session closed
	sent := 0              // messages the backend sent
	got := 0               // messages polls delivered
	extraOpens := 0
	for i := 0; i < n; i++ {
		tag := "op" + rt.Itoa(i)
		arg := sid
		switch rt.Choice(tag+".arg", 3) {
		case 1:
			arg = "unknown-session"
		case 2:
			arg = ""
		}
		valid := arg == sid && !closed && !reported
		switch rt.Choice(tag+".kind", 6) {
		case 0: // data: a batch of one or two messages, each naming a session
			var w *rt.Recorder
			if arg == "" {
				w = env.call("data", "{not json", nil)
				rt.Assert(w.Code == 400, "C12.malformed-data-body-is-400")
			} else {
				batch := []sessionMessage{{ID: arg, Message: "m" + rt.Itoa(i)}}
				second := ""
				if rt.Bool(tag + ".two") {
					second = sid
					if rt.Bool(tag + ".secondUnknown") {
						second = "unknown-session"
					}
					batch = append(batch, sessionMessage{ID: second, Message: "n" + rt.Itoa(i)})
				}
				b, _ := json.Marshal(batch)
				w = env.call("data", string(b), nil)
				if arg != sid || closed || reported || second == "unknown-session" {
					rt.Assert(w.Code == 400, "C12.data-on-unknown-or-closed-session-is-400")
				}
			}
			rt.Assert(answered(w.Code), "C12.data-answered")
		case 1: // poll
			var w *rt.Recorder
			if arg == "" {
				w = env.call("poll", "][", nil)
				rt.Assert(w.Code == 400, "C12.malformed-poll-body-is-400")
			} else {
				w = env.call("poll", sidBody(arg), nil)
				if arg != sid || reported {
					rt.Assert(w.Code == 400, "C12.poll-on-unknown-or-closed-session-is-400")
				}
			}
			rt.Assert(answered(w.Code), "C12.poll-answered")
			if valid && w.Code == 200 {
				var msgs []interface{}
				rt.Assert(json.Unmarshal(w.Body, &msgs) == nil && len(msgs) > 0, "C12.poll-200-carries-messages")
				got += len(msgs)
				rt.Assert(got <= sent, "C12.poll-delivers-only-what-the-backend-sent")
			}
			if valid && w.Code == 400 {
				rt.Assert(backendClosed || closed, "C12.poll-reports-closed-only-after-a-close")
				if backendClosed && !closed {
					rt.Cover("C12.poll-reported-backend-close")
					rt.Assert(got == sent, "C12.messages-received-before-backend-close-are-delivered-first")
				}
				reported = true
			}
		case 2: // close
			var w *rt.Recorder
			if arg == "" {
				w = env.call("close", "", nil)
				rt.Assert(w.Code == 400, "C12.malformed-close-body-is-400")
			} else {
				w = env.call("close", sidBody(arg), nil)
				if arg != sid || closed || reported {
					rt.Assert(w.Code == 400, "C12.close-on-unknown-or-closed-session-is-400")
				} else {
					rt.Assert(w.Code == 200, "C12.close-of-open-session-is-200")
					closed = true
					rt.Cover("C12.session-closed")
				}
			}
			rt.Assert(answered(w.Code), "C12.close-answered")
		case 3: // backend sends a message
			if !backendClosed && !closed {
				if env.backend.WriteMessage(websocket.TextMessage, []byte("s"+rt.Itoa(sent))) == nil {
					sent++
				}
			}
		case 4: // backend closes its end
			if !backendClosed {
				env.backend.Close()
				backendClosed = true
			}
			if rt.Bool(tag + ".settle") {
				// the connection's goroutines get to see the close before the next call
				rt.Quiesce()
			}
		case 5: // another open: gets its own session
			sid2, w := env.open("")
			rt.Assert(w.Code == 200 && sid2 != sid, "C12.second-open-gets-its-own-session")
			extraOpens++
		}
	}
	blocked := rt.Quiesce()
	rt.Assert(blocked == 0 || !(closed || backendClosed) || extraOpens > 0, "C12.no-goroutine-left-blocked-after-close")
	if closed {
		rt.Assert(rt.WSDialClosed(0), "C12.close-closes-the-backend-websocket")
	}
}

// VerifC12Concurrent (HW-12b): two callers race on the same session: each
// performs one operation out of {data, poll, close}; the backend may have sent
// a message or closed before. Every call is answered, nothing crashes, nobody
// stays blocked.
func VerifC12Concurrent() {
	env := newShimEnv(false)
	sid, w := env.open("")
	rt.Assert(w.Code == 200 && sid != "", "C12.open-answered-200")
	if sid == "" {
		return
	}
	pre := rt.Choice("pre", 3)
	if p := rt.Param("pre", -1); p >= 0 {
		rt.Assume(pre == p)
	}
	switch pre {
	case 1:
		env.backend.WriteMessage(websocket.TextMessage, []byte("s0"))
	case 2:
		env.backend.Close()
	}
	codes := make([]int, 2)
	kinds := make([]int, 2)
	done := make(chan int, 2)
	for c := 0; c < 2; c++ {
		kinds[c] = rt.Choice("caller"+rt.Itoa(c)+".kind", 3)
	}
	if rt.Param("needClose", 0) == 1 {
		rt.Assume(kinds[0] == 2 || kinds[1] == 2)
	}
	for c := 0; c < 2; c++ {
		go func(c int) {
			var w *rt.Recorder
			switch kinds[c] {
			case 0:
				w = env.call("data", dataBody(sid, "m"), nil)
			case 1:
				w = env.call("poll", sidBody(sid), nil)
			default:
				w = env.call("close", sidBody(sid), nil)
			}
			codes[c] = w.Code
			done <- c
		}(c)
	}
	blocked := rt.Quiesce()
	rt.Assert(len(done) == 2, "C12.every-concurrent-call-returns")
	if len(done) != 2 {
		return
	}
	// receiving the completion signals orders the callers' writes before the reads below
	<-done
	<-done
	if kinds[0] == 2 || kinds[1] == 2 || pre == 2 {
		rt.Assert(blocked == 0, "C12.no-goroutine-left-blocked-after-close")
	}
	for c := 0; c < 2; c++ {
		rt.Assert(answered(codes[c]), "C12.concurrent-call-answered")
	}
	if kinds[0] == 2 && kinds[1] == 2 {
		rt.Cover("C12.double-close")
		rt.Assert(codes[0] == 200 || codes[1] == 200, "C12.one-of-two-closes-succeeds")
	}
	if kinds[0] == 2 || kinds[1] == 2 {
		rt.Cover("C12.close-vs-other")
		rt.Assert(rt.WSDialClosed(0), "C12.close-closes-the-backend-websocket")
	}
}
