//go:build verif

package websockets

// Harnesses for C11: shimmed websockets deliver every message once, in order,
// unchanged; header injection only touches JSON objects with resource.headers.

import (
	"encoding/base64"
	"encoding/json"
	"net/http"
	"strings"

	rt "github.com/google/inverting-proxy/zzverifrt"
	"github.com/gorilla/websocket"
)

type c11Msg struct {
	binary bool
	data   string
}

func c11Messages(prefix string, max int) []c11Msg {
	n := rt.Int(prefix+".count", 0, max)
	var out []c11Msg
	for i := 0; i < n; i++ {
		tag := prefix + rt.Itoa(i)
		out = append(out, c11Msg{binary: rt.Bool(tag + ".binary"), data: rt.String(tag+".data", rt.Param("payloadCap", 2))})
	}
	return out
}

// wire form of a client message, as the injected browser shim produces it
func c11ClientWire(m c11Msg, version int) interface{} {
	if !m.binary {
		return m.data
	}
	if version == 0 {
		return []interface{}{m.data}
	}
	return []interface{}{base64.StdEncoding.EncodeToString([]byte(m.data))}
}

// VerifC11Order (HW-11b): client messages batched into data posts reach the
// backend once, in order, with type and payload unchanged; backend messages
// reach the client through polls once, in order, unchanged.
func VerifC11Order() {
	env := newShimEnv(false)
	version := rt.Choice("version", 2)
	vh := ""
	if version == 1 {
		vh = "1"
	}
	sid, w := env.open(vh)
	rt.Assert(w.Code == 200 && sid != "", "C11.open-answered-200")
	if sid == "" {
		return
	}

	// client -> server
	out := c11Messages("c", rt.Param("clientMsgs", 3))
	// every batching: a data post ends after message j iff cut[j] (always after the last one)
	var batch []interface{}
	for j := range out {
		batch = append(batch, c11ClientWire(out[j], version))
		if j == len(out)-1 || rt.Bool("cut.after"+rt.Itoa(j)) {
			w := env.call("data", dataBody(sid, batch...), nil)
			rt.Assert(w.Code == 200, "C11.data-post-accepted")
			batch = nil
		}
	}
	for j, m := range out {
		typ, payload, err := env.backend.ReadMessage()
		rt.Assert(err == nil, "C11.backend-receives-every-client-message")
		if err != nil {
			return
		}
		if m.binary {
			rt.Assert(typ == websocket.BinaryMessage, "C11.binary-type-preserved")
		} else {
			rt.Assert(typ == websocket.TextMessage, "C11.text-type-preserved")
		}
		rt.Assert(string(payload) == m.data, "C11.client-payload-unchanged-and-in-order")
		if j == len(out)-1 {
			rt.Cover("C11.all-client-messages-checked")
		}
	}

	// server -> client
	in := c11Messages("s", rt.Param("serverMsgs", 3))
	for _, m := range in {
		typ := websocket.TextMessage
		if m.binary {
			typ = websocket.BinaryMessage
		}
		rt.Assert(env.backend.WriteMessage(typ, []byte(m.data)) == nil, "C11.backend-write-ok")
	}
	got := 0
	for p := 0; p < rt.Param("polls", 4) && got < len(in); p++ {
		w := env.call("poll", sidBody(sid), nil)
		rt.Assert(w.Code == 200 || w.Code == 408, "C11.poll-answered")
		if w.Code != 200 {
			continue
		}
		var msgs []interface{}
		rt.Assert(json.Unmarshal(w.Body, &msgs) == nil, "C11.poll-reply-is-a-json-list")
		for _, raw := range msgs {
			rt.Assert(got < len(in), "C11.no-message-delivered-twice")
			if got >= len(in) {
				return
			}
			want := in[got]
			if !want.binary {
				s, ok := raw.(string)
				rt.Assert(ok && s == want.data, "C11.server-text-unchanged-and-in-order")
			} else {
				arr, ok := raw.([]interface{})
				rt.Assert(ok && len(arr) == 1, "C11.server-binary-arrives-as-one-element-list")
				if ok && len(arr) == 1 {
					s, ok := arr[0].(string)
					rt.Assert(ok, "C11.server-binary-element-is-a-string")
					if version == 1 {
						dec, err := base64.StdEncoding.DecodeString(s)
						rt.Assert(err == nil && string(dec) == want.data, "C11.server-binary-payload-intact-v1")
					}
				}
			}
			got++
		}
	}
	rt.Assert(got == len(in), "C11.every-server-message-delivered")
	if len(in) > 0 && got == len(in) {
		rt.Cover("C11.all-server-messages-checked")
	}
}

// ---------------------------------------------------------------------------
// HW-11c: header injection

func c11Equal(a, b interface{}) bool {
	switch x := a.(type) {
	case nil:
		return b == nil
	case string:
		y, ok := b.(string)
		return ok && x == y
	case float64:
		y, ok := b.(float64)
		return ok && x == y
	case bool:
		y, ok := b.(bool)
		return ok && x == y
	case []interface{}:
		y, ok := b.([]interface{})
		if !ok || len(x) != len(y) {
			return false
		}
		for i := range x {
			if !c11Equal(x[i], y[i]) {
				return false
			}
		}
		return true
	case map[string]interface{}:
		y, ok := b.(map[string]interface{})
		if !ok || len(x) != len(y) {
			return false
		}
		for k, v := range x {
			w, ok := y[k]
			if !ok || !c11Equal(v, w) {
				return false
			}
		}
		return true
	}
	return false
}

// VerifC11Injection: messages of every shape pass through a data post with
// injection enabled.
func VerifC11Injection() {
	env := newShimEnv(true)
	sid, w := env.open("")
	rt.Assert(w.Code == 200 && sid != "", "C11.open-answered-200")
	if sid == "" {
		return
	}
	// request headers of the data post (canonical keys, first value is injected)
	hdr := http.Header{}
	hname := []string{"X-Token", "Authorization"}
	nh := rt.Int("nheaders", 0, 2)
	for i := 0; i < nh; i++ {
		hdr[hname[i]] = []string{rt.String("hv"+rt.Itoa(i), 1)}
	}
	// the message
	existingKey := []string{"X-Token", "Other"}[rt.Choice("existing.key", 2)]
	var existingVal interface{} = rt.String("existing.val", 1)
	if rt.Bool("existing.null") {
		existingVal = nil
	}
	headers := map[string]interface{}{}
	if rt.Bool("existing.present") {
		headers[existingKey] = existingVal
	}
	var tree interface{}
	injectable := false
	shape := rt.Choice("shape", 7)
	switch shape {
	case 0:
		tree = map[string]interface{}{"resource": map[string]interface{}{"headers": headers, "x": "y"}, "op": rt.String("op", 1)}
		injectable = true
	case 1:
		tree = map[string]interface{}{"resource": map[string]interface{}{"x": "y"}}
	case 2:
		tree = map[string]interface{}{"resource": "not-an-object"}
	case 3:
		tree = map[string]interface{}{"resource": map[string]interface{}{"headers": []interface{}{"a"}}}
	case 4:
		tree = []interface{}{map[string]interface{}{"resource": map[string]interface{}{"headers": headers}}}
	case 5:
		tree = map[string]interface{}{"headers": headers}
	}
	var text string
	if shape == 6 {
		text = "plain text, not JSON"
	} else {
		b, err := json.Marshal(tree)
		rt.Assert(err == nil, "C11.harness-marshal")
		text = string(b)
	}
	wd := env.call("data", dataBody(sid, text), hdr)
	rt.Assert(wd.Code == 200, "C11.data-post-accepted")
	typ, payload, err := env.backend.ReadMessage()
	rt.Assert(err == nil && typ == websocket.TextMessage, "C11.backend-receives-the-message")
	if err != nil {
		return
	}
	if !injectable || nh == 0 {
		rt.Cover("C11.not-injectable")
		if shape == 6 {
			rt.Assert(string(payload) == text, "C11.non-json-message-unchanged")
			return
		}
		var got interface{}
		rt.Assert(json.Unmarshal(payload, &got) == nil, "C11.untouched-message-is-still-json")
		var want interface{}
		json.Unmarshal([]byte(text), &want)
		rt.Assert(c11Equal(got, want), "C11.message-without-resource-headers-unchanged")
		return
	}
	rt.Cover("C11.injectable")
	var got map[string]interface{}
	rt.Assert(json.Unmarshal(payload, &got) == nil, "C11.injected-message-is-json-object")
	want := map[string]interface{}{}
	for k, v := range headers {
		want[k] = v
	}
	for i := 0; i < nh; i++ {
		if _, present := want[hname[i]]; !present {
			want[hname[i]] = hdr[hname[i]][0]
		}
	}
	res, _ := got["resource"].(map[string]interface{})
	gh, _ := res["headers"].(map[string]interface{})
	rt.Assert(res != nil && gh != nil, "C11.resource-headers-still-an-object")
	rt.Assert(c11Equal(gh, want), "C11.only-missing-request-headers-are-added")
	rt.Assert(res["x"] == "y" && len(res) == 2 && len(got) == 2, "C11.rest-of-the-message-unchanged")
}

// VerifC11Burst (HW-11d): more messages than the 10-slot internal buffers, in
// both directions, with concrete payloads: nothing lost, duplicated or reordered.
func VerifC11Burst() {
	env := newShimEnv(false)
	sid, w := env.open("1")
	rt.Assert(w.Code == 200 && sid != "", "C11.open-answered-200")
	if sid == "" {
		return
	}
	n := rt.Param("burst", 12)
	// pad > 0 (HW-11e): every message carries that many further bytes, so that a
	// burst also exceeds any plausible *byte* bound on a poll reply, not only the
	// 10-slot message buffers
	pad := strings.Repeat("x", rt.Param("pad", 0))
	// backend -> client: all messages are queued before the first poll (symbolic: the
	// connection's goroutines may or may not have drained the socket by then)
	for i := 0; i < n; i++ {
		rt.Assert(env.backend.WriteMessage(websocket.TextMessage, []byte("s"+rt.Itoa(i)+pad)) == nil, "C11.backend-write-ok")
	}
	if rt.Bool("settle") {
		rt.Quiesce()
	}
	got := 0
	for p := 0; p < n+2 && got < n; p++ {
		w := env.call("poll", sidBody(sid), nil)
		rt.Assert(w.Code == 200 || w.Code == 408, "C11.poll-answered")
		if w.Code != 200 {
			continue
		}
		var msgs []interface{}
		rt.Assert(json.Unmarshal(w.Body, &msgs) == nil, "C11.poll-reply-is-a-json-list")
		for _, raw := range msgs {
			s, ok := raw.(string)
			rt.Assert(ok && s == "s"+rt.Itoa(got)+pad, "C11.burst-server-messages-in-order-none-lost")
			got++
		}
	}
	rt.Assert(got == n, "C11.burst-every-server-message-delivered")
	// client -> backend: one data post carrying the whole burst
	var batch []interface{}
	for i := 0; i < n; i++ {
		batch = append(batch, "c"+rt.Itoa(i)+pad)
	}
	wd := env.call("data", dataBody(sid, batch...), nil)
	rt.Assert(wd.Code == 200, "C11.data-post-accepted")
	for i := 0; i < n; i++ {
		typ, payload, err := env.backend.ReadMessage()
		rt.Assert(err == nil && typ == websocket.TextMessage && string(payload) == "c"+rt.Itoa(i)+pad, "C11.burst-client-messages-in-order-none-lost")
		if err != nil {
			return
		}
	}
	rt.Cover("C11.burst-checked")
}
