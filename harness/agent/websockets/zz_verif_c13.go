//go:build verif

package websockets

// Harnesses for C13 (the websocket shim only ever connects to the configured
// backend).
//
// HW-13a: the real open handler (closure in createShimChannel, reached through
// the real Proxy mux wiring) is driven with r.URL replaced by a URL structure
// whose fields are symbolic within the invariants url.Parse guarantees (the
// replacement happens in the caller-supplied openWebsocketWrapper, which the
// code invokes "after the original targetURL of the request is restored"). The
// string handed to the websocket dialer is read back with an independent
// RFC 3986 reading of the authority.
//
// HW-13b: the open body itself is a symbolic byte string that goes through the
// real url.Parse.
//
// HW-13c: requests for paths outside the shim prefix reach the wrapped handler
// with the same request object.

import (
	"context"
	"io"
	"net/http"
	"net/url"
	"strings"

	"github.com/google/inverting-proxy/agent/metrics"
	rt "github.com/google/inverting-proxy/zzverifrt"
)

const c13Backend = "backend.invalid:8080"

type c13Body struct{ r *strings.Reader }

func (b c13Body) Read(p []byte) (int, error) { return b.r.Read(p) }
func (b c13Body) Close() error               { return nil }

// c13Authority is the independent RFC 3986 reading: scheme "ws", then "//",
// authority up to the first of "/?#", host after the last "@".
func c13Authority(s string) (string, bool) {
	if !strings.HasPrefix(s, "ws://") {
		return "", false
	}
	rest := s[5:]
	end := len(rest)
	for i := 0; i < len(rest); i++ {
		c := rest[i]
		if c == '/' || c == '?' || c == '#' {
			end = i
			break
		}
	}
	auth := rest[:end]
	if k := strings.LastIndexByte(auth, '@'); k >= 0 {
		auth = auth[k+1:]
	}
	return auth, true
}

func c13CheckDials() {
	n := rt.WSDials()
	for i := 0; i < n; i++ {
		rt.Cover("C13.dial-observed")
		auth, ok := c13Authority(rt.WSDialURL(i))
		rt.Assert(ok, "C13.dialled-string-is-a-ws-url-with-authority")
		if ok {
			rt.Assert(auth == c13Backend, "C13.authority-is-the-configured-backend")
		}
	}
}

func c13Handler(wrapper func(http.Handler, *metrics.MetricHandler) http.Handler, passthrough http.Handler) http.Handler {
	rt.InstallMuxModel()
	h, err := Proxy(context.Background(), passthrough, c13Backend, "shim", rt.Bool("rewriteHost"), false, wrapper, nil)
	rt.Assert(err == nil, "C13.proxy-built")
	return h
}

func c13Request(path, body string) *http.Request {
	return &http.Request{Method: "POST", URL: &url.URL{Path: path}, Header: http.Header{}, Host: "front.invalid",
		Body: c13Body{strings.NewReader(body)}, Proto: "HTTP/1.1", ProtoMajor: 1, ProtoMinor: 1}
}

// VerifC13OpenURL is HW-13a. The input space is split along its independent
// dimensions (param "dim"): 0 = userinfo, 1 = path,
// 2 = scheme / opaque, 3 = query / fragment. Fields outside the chosen dimension take a few concrete
// representative values.
func VerifC13OpenURL() {
	dim := rt.Param("dim", 1)
	var u url.URL
	pick := func(name string, opts ...string) string { return opts[rt.Choice(name, len(opts))] }
	switch dim {
	case 0:
		if rt.Bool("hasPassword") {
			u.User = url.UserPassword(rt.String("user", rt.Param("userCap", 1)), rt.String("password", rt.Param("userCap", 1)))
		} else {
			u.User = url.User(rt.String("user", rt.Param("userCap", 1)))
		}
		u.Scheme = pick("scheme", "", "ws", "http")
		u.Host = pick("host", "", "evil.invalid")
		u.Path = pick("path", "", "/", "/p", "p")
		u.RawQuery = pick("query", "", "q=1")
	case 1:
		u.Scheme = pick("scheme", "", "ws")
		u.Host = pick("host", "", "evil.invalid")
		u.Path = rt.String("path", rt.Param("pathCap", 2))
		u.RawQuery = pick("query", "", "q=1")
		u.OmitHost = rt.Bool("omitHost")
	case 3:
		u.Scheme = pick("scheme", "", "ws")
		u.Host = pick("host", "", "evil.invalid")
		u.Path = pick("path", "", "/p", "p")
		u.ForceQuery = rt.Bool("forceQuery")
		u.RawQuery = rt.String("query", rt.Param("queryCap", 1))
		u.Fragment = rt.String("fragment", rt.Param("fragmentCap", 1))
	default:
		u.Scheme = rt.String("scheme", rt.Param("schemeCap", 2))
		u.Opaque = rt.String("opaque", rt.Param("opaqueCap", 2))
		u.RawQuery = pick("query", "", "q")
		u.Fragment = pick("fragment", "", "f")
		u.OmitHost = rt.Bool("omitHost")
		if u.Opaque == "" {
			u.Host = pick("host", "", "evil.invalid")
			u.Path = pick("path", "", "/p")
		}
	}
	// invariants of url.Parse results
	rt.Assume(!strings.Contains(u.RawQuery, "#"))
	if u.Opaque != "" {
		rt.Assume(u.Scheme != "")
	}
	passthrough := http.HandlerFunc(func(w http.ResponseWriter, r *http.Request) { rt.Unreachable("C13.open-request-not-passed-through") })
	wrapper := func(h http.Handler, _ *metrics.MetricHandler) http.Handler {
		return http.HandlerFunc(func(w http.ResponseWriter, r *http.Request) {
			rt.Cover("C13.open-handler-reached")
			uu := u
			r.URL = &uu
			h.ServeHTTP(w, r)
		})
	}
	h := c13Handler(wrapper, passthrough)
	w := rt.NewRecorder()
	h.ServeHTTP(w, c13Request("/shim/open", "ws://front.invalid/socket"))
	rt.Assert(w.Code == 200 || w.Code == 400 || w.Code == 500, "C13.open-answered")
	c13CheckDials()
}

// VerifC13OpenBody is HW-13b.
func VerifC13OpenBody() {
	body := rt.String("body", rt.Param("bodyCap", 4))
	passthrough := http.HandlerFunc(func(w http.ResponseWriter, r *http.Request) { rt.Unreachable("C13.open-request-not-passed-through") })
	identity := func(h http.Handler, _ *metrics.MetricHandler) http.Handler { return h }
	h := c13Handler(identity, passthrough)
	w := rt.NewRecorder()
	h.ServeHTTP(w, c13Request("/shim/open", body))
	rt.Assert(w.Code == 200 || w.Code == 500 || w.Code == 400, "C13.open-answered")
	if w.Code == 400 {
		rt.Cover("C13.unparsable-body-rejected")
		rt.Assert(rt.WSDials() == 0, "C13.no-dial-for-rejected-body")
	}
	c13CheckDials()
}

// VerifC13Passthrough is HW-13c.
func VerifC13Passthrough() {
	p := "/" + rt.String("path", rt.Param("pathCap", 6))
	rt.Assume(!strings.HasPrefix(p, "/shim/") && p != "/shim")
	// paths the real mux would redirect instead of serving are outside (the mux model answers them itself)
	var seen *http.Request
	passthrough := http.HandlerFunc(func(w http.ResponseWriter, r *http.Request) { seen = r; w.WriteHeader(204) })
	identity := func(h http.Handler, _ *metrics.MetricHandler) http.Handler { return h }
	h := c13Handler(identity, passthrough)
	w := rt.NewRecorder()
	r := c13Request(p, "payload")
	h.ServeHTTP(w, r)
	if rt.MuxRedirected > 0 {
		rt.Cover("C13.unclean-path-redirected-by-mux")
		rt.Assert(seen == nil && rt.WSDials() == 0, "C13.redirect-touches-nothing")
		return
	}
	rt.Cover("C13.passthrough")
	rt.Assert(seen == r, "C13.other-paths-reach-the-wrapped-handler-with-the-same-request")
	rt.Assert(w.Code == 204 && rt.WSDials() == 0, "C13.other-paths-untouched")
	b, _ := io.ReadAll(r.Body)
	rt.Assert(string(b) == "payload", "C13.body-not-consumed")
}
