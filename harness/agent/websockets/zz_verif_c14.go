//go:build verif

package websockets

// Harness HW-14b (C14): ShimBody alters HTML responses only, by inserting the
// script once, immediately after the first <head>. The backend body is a
// symbolic byte string delivered in symbolic read segments.

import (
	"io"
	"net/http"
	"strings"

	rt "github.com/google/inverting-proxy/zzverifrt"
)

type c14Body struct {
	data   []byte
	pos    int
	reads  int
	closed bool
}

func (b *c14Body) Read(p []byte) (int, error) {
	if b.pos >= len(b.data) {
		return 0, io.EOF
	}
	n := rt.Int("piece"+rt.Itoa(b.reads), 1, len(b.data))
	b.reads++
	rt.Assume(n <= len(p) && n <= len(b.data)-b.pos)
	copy(p, b.data[b.pos:b.pos+n])
	b.pos += n
	if b.pos >= len(b.data) && rt.Bool("eofWithData"+rt.Itoa(b.reads)) {
		return n, io.EOF
	}
	return n, nil
}

func (b *c14Body) Close() error { b.closed = true; return nil }

func VerifC14ShimBody() {
	shim, err := ShimBody("shim")
	rt.Assert(err == nil, "C14.shimbody-built")
	// the script text is whatever the template produces for this path
	var probe strings.Builder
	shimTmpl.Execute(&probe, &struct{ ShimPath string }{ShimPath: "shim"})
	script := probe.String()

	ct := rt.String("contentType", rt.Param("contentTypeCap", 6))
	rt.Assume(rt.ASCII(ct)) // case mapping of non-ASCII runes is outside the supported subset
	data := rt.Bytes("body", rt.Param("bodyCap", 8))
	original := string(data)
	body := &c14Body{data: data}
	resp := &http.Response{StatusCode: 200, Header: http.Header{"Content-Length": []string{"8"}}, Body: body}
	if ct != "" {
		resp.Header.Set("Content-Type", ct)
	}
	err = shim(resp)
	rt.Assert(err == nil, "C14.shim-function-succeeds")
	isHTML := strings.Contains(strings.ToLower(ct), "html")
	if !isHTML {
		rt.Cover("C14.non-html-untouched")
		rt.Assert(resp.Body == io.ReadCloser(body) && resp.Header.Get("Content-Length") == "8", "C14.non-html-response-object-untouched")
		return
	}
	out, rerr := io.ReadAll(resp.Body)
	rt.Assert(rerr == nil, "C14.shimmed-body-readable")
	got := string(out)
	i := strings.Index(original, "<head>")
	// the first read decides what the shim can see: a <head> split across reads (or after the first read) is legitimately missed
	if got == original {
		rt.Cover("C14.html-body-unchanged")
		return
	}
	rt.Cover("C14.script-inserted")
	rt.Assert(i >= 0, "C14.body-changed-only-when-it-contains-head")
	if i >= 0 {
		want := original[:i+6] + script + original[i+6:]
		rt.Assert(got == want, "C14.script-inserted-once-immediately-after-the-first-head-nothing-else-changed")
	}
}
