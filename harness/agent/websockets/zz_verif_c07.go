//go:build verif

package websockets

import (
	"github.com/gorilla/websocket"

	rt "github.com/google/inverting-proxy/zzverifrt"
)

// VerifC07ShimShapes (HW-7b): fault isolation of the websocket shim against a
// client message of any JSON shape. Two sessions are open; the victim session
// receives one data call whose message is a symbolic choice among the shapes a
// JSON decoder can produce (string, one-element arrays of a string / number /
// null / array, empty and two-element arrays, number, null, object, boolean,
// text that is not base64), with either protocol version and with or without
// header injection. Whatever the shim answers, the agent must survive (any
// run-time panic in any goroutine, deadlock or log.Fatal is a finding of the
// engine) and the other session must still carry a message to its backend.
func VerifC07ShimShapes() {
	injection := rt.Bool("injection")
	env := newShimEnv(injection)
	version := []string{"", "1"}[rt.Choice("version", 2)]
	other, w := env.open(version)
	rt.Assert(w.Code == 200 && other != "", "C12.open-answered-200")
	otherBackend := env.backend
	victim, w := env.open(version)
	rt.Assert(w.Code == 200 && victim != "", "C12.open-answered-200")
	if other == "" || victim == "" || otherBackend == nil {
		return
	}
	var m interface{}
	switch rt.Choice("shape", 12) {
	case 0:
		m = "text"
	case 1:
		m = []interface{}{"aGk="}
	case 2:
		m = []interface{}{123.0}
	case 3:
		m = []interface{}{}
	case 4:
		m = []interface{}{"YQ==", "Yg=="}
	case 5:
		m = 5.0
	case 6:
		m = nil
	case 7:
		m = map[string]interface{}{"a": "b"}
	case 8:
		m = true
	case 9:
		m = []interface{}{"!not base64!"}
	case 10:
		m = []interface{}{nil}
	case 11:
		m = []interface{}{[]interface{}{"x"}}
	}
	w1 := env.call("data", dataBody(victim, m), nil)
	rt.Assert(answered(w1.Code), "C07.shim-data-of-any-shape-is-answered")
	rt.Quiesce() // the victim session's forwarding goroutines act on what was queued
	rt.Cover("C07.malformed-shim-message-survived")
	w2 := env.call("data", dataBody(other, "after"), nil)
	rt.Assert(w2.Code == 200, "C07.other-session-still-accepts-data")
	typ, payload, err := otherBackend.ReadMessage()
	rt.Assert(err == nil && typ == websocket.TextMessage && string(payload) == "after", "C07.other-session-still-forwards-to-its-backend")
}
