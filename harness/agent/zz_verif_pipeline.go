//go:build verif

package main

// Agent-side harnesses for C02, C03, C04, C05, C07 and the loop clause of C08:
// the real processOneRequest / forwardRequest / pollForNewRequests, the real
// utils code (ReadRequest, NewResponseForwarder, streamingResponseWriter,
// postResponseWithRetries, bufferedReadSeeker) and the real handler chain of
// hostProxy() with the real httputil.ReverseProxy, between a model proxy
// (RoundTripper behind the agent's client) and a model backend (RoundTripper
// behind the ReverseProxy).

import (
	"bufio"
	"bytes"
	"context"
	"encoding/json"
	"errors"
	"io"
	"net/http"
	"net/http/httptrace"
	"net/textproto"
	"net/url"
	"strings"
	"time"

	"github.com/google/inverting-proxy/agent/utils"
	rt "github.com/google/inverting-proxy/zzverifrt"
)

// vProxy is the inverting proxy as the agent sees it.
type vProxy struct {
	lists      [][]string               // successive pending-list replies
	listFail   []bool                   // per list call: answer 500
	listCalls  int
	listFailEmptyBody bool
	settle     bool
	onList     func()
	listFailFn func() bool
	garbageList bool
	requests   map[string][]byte        // wire form of the stored client requests
	user       map[string]string        // asserted user per request
	uploads    map[string]*http.Response // parsed response uploads per request id
	uploadBody map[string]string
	uploadRaw  map[string]int // upload attempts per id
	// faults (per request id)
	fetchFault  map[string]string // "error" | "500" | "404" | "badtime" | "garbage"
	uploadFault map[string]string // "error" | "500"
	onUploadRead func(id string, total []byte)
	afterLists   func()
}

func newVProxy() *vProxy {
	return &vProxy{requests: map[string][]byte{}, user: map[string]string{}, uploads: map[string]*http.Response{}, uploadBody: map[string]string{},
		uploadRaw: map[string]int{}, fetchFault: map[string]string{}, uploadFault: map[string]string{}}
}

func vPlain(code int, body string, h http.Header) *http.Response {
	if h == nil {
		h = http.Header{}
	}
	return &http.Response{StatusCode: code, Proto: "HTTP/1.1", ProtoMajor: 1, ProtoMinor: 1, Header: h, Body: vBody{strings.NewReader(body)}, ContentLength: int64(len(body))}
}

func (p *vProxy) RoundTrip(req *http.Request) (*http.Response, error) {
	id := req.Header.Get(utils.HeaderRequestID)
	switch {
	case strings.HasSuffix(req.URL.Path, utils.PendingPath):
		i := p.listCalls
		p.listCalls++
		if p.onList != nil {
			p.onList()
		}
		if p.settle && rt.Bool("workersFinishBeforeList"+rt.Itoa(i)) {
			// timing of earlier fetches and uploads relative to this poll: they complete first
			rt.Quiesce()
		}
		if p.listFailFn != nil && p.listFailFn() {
			return vPlain(503, "", nil), nil
		}
		if i < len(p.listFail) && p.listFail[i] {
			if p.listFailEmptyBody {
				return vPlain(503, "", nil), nil
			}
			return vPlain(500, "whoops", nil), nil
		}
		if i >= len(p.lists) {
			if p.afterLists != nil {
				p.afterLists()
			}
			return vPlain(200, "[]", nil), nil
		}
		b, _ := json.Marshal(p.lists[i])
		if p.garbageList && i == 0 {
			// a garbled reply is followed by the intact one on the next poll
			p.garbageList = false
			p.listCalls--
			return vPlain(200, "[\"victim\", <garbage", nil), nil
		}
		return vPlain(200, string(b), nil), nil
	case strings.HasSuffix(req.URL.Path, utils.RequestPath):
		switch p.fetchFault[id] {
		case "error":
			return nil, errors.New("injected: connection reset while fetching")
		case "500":
			return vPlain(500, "", nil), nil
		case "404":
			return vPlain(404, "", nil), nil
		}
		wire, ok := p.requests[id]
		if !ok {
			return vPlain(404, "", nil), nil
		}
		h := http.Header{}
		h.Set(utils.HeaderUserID, p.user[id])
		h.Set(utils.HeaderRequestStartTime, time.Now().Format(time.RFC3339Nano))
		if p.fetchFault[id] == "badtime" {
			h.Set(utils.HeaderRequestStartTime, "yesterday")
		}
		if p.fetchFault[id] == "garbage" {
			return vPlain(200, "\x02this is not a request", h), nil
		}
		return vPlain(200, string(wire), h), nil
	case strings.HasSuffix(req.URL.Path, utils.ResponsePath):
		p.uploadRaw[id]++
		switch p.uploadFault[id] {
		case "error":
			return nil, errors.New("injected: connection reset while uploading")
		case "500":
			return vPlain(500, "", nil), nil
		}
		var all []byte
		buf := make([]byte, 64)
		for {
			n, err := req.Body.Read(buf)
			all = append(all, buf[:n]...)
			if p.onUploadRead != nil && n > 0 {
				p.onUploadRead(id, all)
			}
			if err != nil {
				break
			}
		}
		resp, err := http.ReadResponse(bufio.NewReader(bytes.NewReader(all)), nil)
		if err != nil {
			return vPlain(400, "", nil), nil
		}
		body, _ := io.ReadAll(resp.Body)
		p.uploads[id] = resp
		p.uploadBody[id] = string(body)
		return vPlain(200, "", nil), nil
	}
	return vPlain(404, "", nil), nil
}

func (p *vProxy) store(id string, r *http.Request, user string) {
	var wire bytes.Buffer
	r.Write(&wire)
	p.requests[id] = wire.Bytes()
	p.user[id] = user
}

func vSetup() (*vProxy, *vBackend, *http.Client, http.Handler) {
	vResetFlags()
	prox := newVProxy()
	backend := &vBackend{}
	http.DefaultTransport = backend
	client := &http.Client{Transport: prox}
	hp, err := hostProxy(context.Background(), *host, "", false, false)
	rt.Assert(err == nil, "agent.handler-chain-built")
	return prox, backend, client, hp
}

var vHop = []string{"Connection", "Keep-Alive", "Proxy-Authenticate", "Proxy-Authorization", "Te", "Trailer", "Transfer-Encoding", "Upgrade"}

func vIsHopName(n string) bool {
	for _, h := range vHop {
		if strings.EqualFold(h, n) {
			return true
		}
	}
	return strings.EqualFold(n, "Proxy-Connection")
}

// ---------------------------------------------------------------------------
// HA-2 (C02): the backend receives the fetched request unaltered.

func VerifC02Agent() {
	prox, backend, client, hp := vSetup()
	hdr := http.Header{}
	e2e := []string{"Accept", "Cookie", "X-Custom", "Authorization", "Content-Type", "X-Forwarded-For"}
	n := rt.Int("nheaders", 0, rt.Param("headers", 2))
	for i := 0; i < n; i++ {
		tag := "h" + rt.Itoa(i)
		name := e2e[rt.Choice(tag+".name", len(e2e))]
		nv := rt.Int(tag+".nvals", 1, 2)
		for j := 0; j < nv; j++ {
			v := rt.String(tag+".v"+rt.Itoa(j), rt.Param("valueCap", 1))
			rt.Assume(rt.ASCII(v))
			hdr[name] = append(hdr[name], v)
		}
	}
	method := []string{"GET", "POST", "PUT", "DELETE", "HEAD"}[rt.Choice("method", 5)]
	body := rt.String("body", rt.Param("bodyCap", 2))
	if method == "GET" || method == "HEAD" {
		body = ""
	}
	clientReq := &http.Request{Method: method, URL: &url.URL{Path: "/a b/c", RawQuery: "x=1&y=%2F"}, Host: "service.example.com", Header: hdr,
		Body: vBody{strings.NewReader(body)}, ContentLength: int64(len(body)), Proto: "HTTP/1.1", ProtoMajor: 1, ProtoMinor: 1}
	want := http.Header{}
	for k, v := range hdr {
		want[k] = append([]string{}, v...)
	}
	prox.store("id1", clientReq, "user@example.com")
	processOneRequest(client, hp, "backend-1", "id1")

	rt.Assert(len(backend.seen) == 1, "C02.backend-invoked-exactly-once")
	if len(backend.seen) != 1 {
		return
	}
	got := backend.seen[0]
	rt.Assert(got.Method == method, "C02.method-unchanged")
	rt.Assert(got.URL.EscapedPath() == "/a%20b/c" && got.URL.RawQuery == "x=1&y=%2F", "C02.request-target-unchanged")
	rt.Assert(got.Host == "service.example.com", "C02.host-unchanged")
	rt.Assert(backend.bodies[0] == body, "C02.body-unchanged")
	for k, v := range want {
		gv := got.Header[k]
		rt.Assert(len(gv) == len(v), "C02.end-to-end-header-values-all-present")
		for i := range v {
			if i < len(gv) {
				rt.Assert(gv[i] == v[i], "C02.end-to-end-header-values-in-order")
			}
		}
	}
	for k := range got.Header {
		_, sent := want[k]
		rt.Assert(sent || k == "User-Agent" || k == "X-Forwarded-For" || k == "Accept-Encoding", "C02.only-default-fields-are-added")
		rt.Assert(!vIsHopName(k), "C02.no-hop-by-hop-field-reaches-the-backend")
	}
	rt.Assert(prox.uploads["id1"] != nil, "C02.response-uploaded")
	rt.Cover("C02.backend-request-checked")
}

// ---------------------------------------------------------------------------
// HU-3a (C03): the proxy receives the backend's response unaltered.

func VerifC03Agent() {
	prox, backend, client, hp := vSetup()
	hdr := http.Header{}
	names := append(append([]string{}, vHop...), "Set-Cookie", "Content-Type", "X-Custom")
	n := rt.Int("nheaders", 0, rt.Param("headers", 2))
	for i := 0; i < n; i++ {
		tag := "h" + rt.Itoa(i)
		name := names[rt.Choice(tag+".name", len(names))]
		rt.Assume(name != "Transfer-Encoding" && name != "Trailer" && name != "Upgrade" && name != "Connection")
		nv := rt.Int(tag+".nvals", 1, 2)
		for j := 0; j < nv; j++ {
			hdr[name] = append(hdr[name], "v"+rt.Itoa(i)+rt.Itoa(j))
		}
	}
	status := rt.Int("status", 200, 599)
	rt.Assume(status != 204 && status != 304)
	nchunks := rt.Int("nchunks", 0, rt.Param("chunks", 2))
	var chunks []string
	full := ""
	for i := 0; i < nchunks; i++ {
		c := rt.String("chunk"+rt.Itoa(i), rt.Param("chunkCap", 2))
		rt.Assume(c != "")
		chunks = append(chunks, c)
		full += c
	}
	declared := rt.Int("ndeclaredTrailers", 0, rt.Param("trailers", 2))
	late := rt.Int("nlateTrailers", 0, 1)
	tnames := []string{"X-Checksum", "Grpc-Status", []string{"Trace-Id", "X-Late", "Te-Late"}[rt.Choice("lateName", rt.Param("lateNames", 1))]}
	interim := rt.Param("interim", 0) == 1 && rt.Bool("interim103")
	rt.Known("C03-trailer-race", declared+late > 0)

	wantHdr := http.Header{}
	for k, v := range hdr {
		if !vIsHopName(k) {
			wantHdr[k] = append([]string{}, v...)
		}
	}
	wantTrailer := http.Header{}
	backend.respond = func(r *http.Request) (*http.Response, error) {
		if interim {
			if tr := httptrace.ContextClientTrace(r.Context()); tr != nil && tr.Got1xxResponse != nil {
				tr.Got1xxResponse(103, textproto.MIMEHeader{"Link": []string{"</style.css>; rel=preload"}})
			}
		}
		trailer := http.Header{}
		for i := 0; i < declared; i++ {
			trailer[tnames[i]] = nil // announced, value arrives after the body
		}
		body := &vChunkBody{chunks: chunks}
		resp := &http.Response{StatusCode: status, Proto: "HTTP/1.1", ProtoMajor: 1, ProtoMinor: 1, Header: hdr, Body: body, ContentLength: -1, Trailer: trailer, Request: r}
		body.atEOF = func() {
			for i := 0; i < declared; i++ {
				resp.Trailer[tnames[i]] = []string{"t" + rt.Itoa(i)}
				wantTrailer[tnames[i]] = []string{"t" + rt.Itoa(i)}
			}
			if late == 1 {
				resp.Trailer[tnames[2]] = []string{"late"}
				wantTrailer[tnames[2]] = []string{"late"}
			}
		}
		return resp, nil
	}
	prox.store("id1", &http.Request{Method: "GET", URL: &url.URL{Path: "/"}, Host: "service.example.com", Header: http.Header{}, Body: http.NoBody,
		Proto: "HTTP/1.1", ProtoMajor: 1, ProtoMinor: 1}, "user@example.com")
	processOneRequest(client, hp, "backend-1", "id1")

	up := prox.uploads["id1"]
	rt.Assert(up != nil, "C03.response-uploaded")
	if up == nil {
		return
	}
	rt.Assert(up.StatusCode == status, "C03.final-status-unchanged")
	rt.Assert(prox.uploadBody["id1"] == full, "C03.body-unchanged")
	for k, v := range wantHdr {
		gv := up.Header[k]
		rt.Assert(len(gv) == len(v), "C03.end-to-end-header-values-all-present")
		for i := range v {
			if i < len(gv) {
				rt.Assert(gv[i] == v[i], "C03.end-to-end-header-values-in-order")
			}
		}
	}
	for k, v := range wantTrailer {
		gv := up.Trailer[k]
		rt.Assert(len(gv) == 1 && len(v) == 1 && gv[0] == v[0], "C03.trailer-values-are-delivered-as-trailers")
	}
	if declared+late > 0 {
		rt.Cover("C03.trailers-checked")
	}
	for k := range up.Header {
		rt.Assert(!vIsHopName(k), "C03.no-hop-by-hop-field-is-forwarded")
	}
	for k := range up.Header {
		_, sent := hdr[k]
		rt.Assert(sent, "C03.no-header-is-invented")
	}
	if len(chunks) == 1 && len(chunks[0]) == 1 {
		rt.Cover("C03.one-byte-first-write")
	}
	rt.Cover("C03.upload-checked")
}

// vChunkBody delivers its chunks one Read at a time and reports EOF separately.
type vChunkBody struct {
	chunks []string
	i      int
	atEOF  func()
	done   bool
	before func(i int)
	waited map[int]bool
}

func (b *vChunkBody) Read(p []byte) (int, error) {
	if b.i >= len(b.chunks) {
		if !b.done && b.atEOF != nil {
			b.done = true
			b.atEOF()
		}
		return 0, io.EOF
	}
	if b.before != nil {
		b.before(b.i)
	}
	n := copy(p, b.chunks[b.i])
	if n < len(b.chunks[b.i]) {
		b.chunks[b.i] = b.chunks[b.i][n:]
	} else {
		b.i++
	}
	return n, nil
}
func (b *vChunkBody) Close() error { return nil }

// ---------------------------------------------------------------------------
// HA-4 (C04): whatever the proxy lists, each request is forwarded at most once,
// and exactly once when it is served without error. HA-8 (C08): the polling loop
// sleeps a back-off delay after every failed list call and returns to the
// shortest delay after a success.

func VerifC04Agent() {
	prox, backend, client, hp := vSetup()
	ids := []string{"a", "b", "c"}
	for _, id := range ids {
		prox.store(id, &http.Request{Method: "GET", URL: &url.URL{Path: "/" + id}, Host: "service.example.com", Header: http.Header{}, Body: http.NoBody,
			Proto: "HTTP/1.1", ProtoMajor: 1, ProtoMinor: 1}, "user@example.com")
	}
	polls := rt.Param("polls", 3)
	for k := 0; k < polls; k++ {
		var l []string
		n := rt.Int("list"+rt.Itoa(k)+".len", 0, rt.Param("listLen", 3))
		for j := 0; j < n; j++ {
			l = append(l, ids[rt.Choice("list"+rt.Itoa(k)+".id"+rt.Itoa(j), len(ids))])
		}
		prox.lists = append(prox.lists, l)
		prox.listFail = append(prox.listFail, rt.Param("listFailures", 0) == 1 && rt.Bool("list"+rt.Itoa(k)+".fails"))
	}
	prox.listFailEmptyBody = rt.Param("listFailures", 0) == 1 && rt.Bool("failuresHaveEmptyBody")
	if rt.Param("uploadFaults", 0) == 1 && rt.Bool("uploadOfAFails") {
		prox.uploadFault["a"] = "error"
	}
	prox.settle = rt.Param("settle", 1) == 1
	ctx, cancel := context.WithCancel(context.Background())
	prox.afterLists = cancel
	pollForNewRequests(ctx, client, hp, "backend-1")
	rt.Quiesce()

	listedOK := map[string]bool{}
	for k, l := range prox.lists {
		if prox.listFail[k] {
			continue
		}
		for _, id := range l {
			listedOK[id] = true
		}
	}
	count := map[string]int{}
	for _, r := range backend.seen {
		count[strings.TrimPrefix(r.URL.Path, "/")]++
	}
	for _, id := range ids {
		rt.Assert(count[id] <= 1, "C04.request-forwarded-at-most-once")
		if listedOK[id] {
			rt.Cover("C04.listed")
			rt.Assert(count[id] == 1, "C04.listed-request-forwarded-exactly-once")
			if prox.uploadFault[id] == "" {
				rt.Assert(prox.uploads[id] != nil, "C04.forwarded-request-is-answered")
			}
		} else {
			rt.Assert(count[id] == 0, "C04.unlisted-request-never-forwarded")
		}
	}
	// C08 loop clause: one sleep per failed list call, of the back-off delay for the
	// number of consecutive failures so far
	fails := 0
	sleepIdx := 0
	for k := 0; k < polls; k++ {
		if !prox.listFail[k] {
			fails = 0
			continue
		}
		rt.Cover("C08.list-failure")
		d := rt.Slept(sleepIdx)
		sleepIdx++
		t := int64(3 * time.Second)
		if fails <= 11 {
			t = int64(time.Millisecond) << uint(fails)
		}
		rt.Assert(d > 0, "C08.loop-sleeps-a-positive-delay-after-a-failed-list")
		rt.Assert(d*10 >= t*9-10 && d*10 <= t*11, "C08.loop-delay-doubles-from-1ms-and-resets-after-success")
		fails++
	}
	rt.Assert(rt.SleptCount() == sleepIdx, "C08.loop-sleeps-only-after-failures")
}

// VerifDebugFetch is a development aid: prints why a fetch fails.
func VerifDebugFetch() {
	prox, _, client, _ := vSetup()
	prox.store("id1", &http.Request{Method: "GET", URL: &url.URL{Path: "/x"}, Host: "service.example.com", Header: http.Header{}, Body: http.NoBody,
		Proto: "HTTP/1.1", ProtoMajor: 1, ProtoMinor: 1}, "user@example.com")
	err := utils.ReadRequest(client, *proxy, "backend-1", "id1", func(c *http.Client, fr *utils.ForwardedRequest) error {
		rt.Debug("callback", fr.Contents.Method, fr.Contents.URL.Path)
		return nil
	}, nil)
	rt.Debug("ReadRequest", err)
}

// ---------------------------------------------------------------------------
// HU-5 (C05): responses stream through the agent chunk by chunk. The backend
// produces chunk j only after the proxy has observed chunk j-1 in the upload
// body; if anything on the way waits for more output (or for the end of the
// response) before relaying what was flushed, the run deadlocks, which the engine
// reports.

func VerifC05Streaming() {
	vResetFlags()
	prox := newVProxy()
	backend := &vBackend{}
	http.DefaultTransport = backend
	client := &http.Client{Transport: prox}
	shim := rt.Param("shim", 0) == 1
	shimPath := ""
	if shim {
		shimPath = "shim"
		*shimWebsockets = true
	}
	hp, err := hostProxy(context.Background(), *host, shimPath, shim, false)
	rt.Assert(err == nil, "C05.handler-chain-built")

	sizes := []int{1, 3, 5}
	n := rt.Int("nchunks", 1, rt.Param("chunks", 3))
	var chunks []string
	total := 0
	for i := 0; i < n; i++ {
		sz := sizes[rt.Choice("size"+rt.Itoa(i), len(sizes))]
		// chunk i consists of sz+1 copies of a byte that occurs nowhere else in the upload
		c := strings.Repeat(string([]byte{byte(0xf0 + i)}), sz+1)
		chunks = append(chunks, c)
		total += len(c)
	}
	full := strings.Join(chunks, "")
	observed := make(chan int, 8)
	seen := 0
	prox.onUploadRead = func(id string, all []byte) {
		for seen < len(chunks) && bytes.Count(all, []byte{byte(0xf0 + seen)}) == len(chunks[seen]) {
			observed <- seen
			seen++
		}
	}
	hdr := http.Header{}
	if rt.Bool("declaresContentLength") {
		hdr.Set("Content-Length", rt.Itoa(total))
	}
	if rt.Bool("isHTML") {
		hdr.Set("Content-Type", "text/html")
	}
	backend.respond = func(r *http.Request) (*http.Response, error) {
		body := &vChunkBody{chunks: append([]string{}, chunks...)}
		body.before = func(i int) {
			if i > 0 && !body.waited[i] {
				body.waited[i] = true
				<-observed // chunk i-1 has reached the proxy
			}
		}
		body.waited = map[int]bool{}
		cl := int64(-1)
		if hdr.Get("Content-Length") != "" {
			cl = int64(total)
		}
		return &http.Response{StatusCode: 200, Proto: "HTTP/1.1", ProtoMajor: 1, ProtoMinor: 1, Header: hdr, Body: body, ContentLength: cl, Request: r}, nil
	}
	prox.store("id1", &http.Request{Method: "GET", URL: &url.URL{Path: "/stream"}, Host: "service.example.com", Header: http.Header{}, Body: http.NoBody,
		Proto: "HTTP/1.1", ProtoMajor: 1, ProtoMinor: 1}, "user@example.com")
	processOneRequest(client, hp, "backend-1", "id1")
	rt.Assert(seen == len(chunks), "C05.every-flushed-chunk-reached-the-proxy-before-the-next-was-produced")
	rt.Assert(prox.uploads["id1"] != nil && strings.Contains(prox.uploadBody["id1"], full[len(full)-1:]), "C05.response-completed")
	if !shim || hdr.Get("Content-Type") == "" {
		rt.Assert(prox.uploadBody["id1"] == full, "C05.body-complete-and-in-order")
	}
	rt.Cover("C05.streamed")
}

// ---------------------------------------------------------------------------
// HA-7 (C07): one failing request never takes down the agent or other requests.

func VerifC07Faults() {
	prox, backend, client, hp := vSetup()
	ids := []string{"victim", "healthy1", "healthy2"}
	for _, id := range ids {
		prox.store(id, &http.Request{Method: "GET", URL: &url.URL{Path: "/" + id}, Host: "service.example.com", Header: http.Header{}, Body: http.NoBody,
			Proto: "HTTP/1.1", ProtoMajor: 1, ProtoMinor: 1}, "user@example.com")
	}
	fault := rt.Choice("fault", 11)
	switch fault {
	case 0:
		prox.fetchFault["victim"] = "error"
	case 1:
		prox.fetchFault["victim"] = "500"
	case 2:
		prox.fetchFault["victim"] = "404"
	case 3:
		prox.fetchFault["victim"] = "badtime"
	case 4:
		prox.fetchFault["victim"] = "garbage"
	case 5:
		prox.uploadFault["victim"] = "error"
	case 6:
		prox.uploadFault["victim"] = "500"
	}
	backend.respond = func(r *http.Request) (*http.Response, error) {
		if r.URL.Path == "/victim" {
			switch fault {
			case 7:
				return nil, errors.New("dial tcp: connection refused")
			case 8: // the backend breaks off after the headers
				return &http.Response{StatusCode: 200, Proto: "HTTP/1.1", ProtoMajor: 1, ProtoMinor: 1, Header: http.Header{}, Body: &vFailingBody{data: "", err: errors.New("connection reset")}, ContentLength: -1, Request: r}, nil
			case 9: // ... or in the middle of the body
				return &http.Response{StatusCode: 200, Proto: "HTTP/1.1", ProtoMajor: 1, ProtoMinor: 1, Header: http.Header{}, Body: &vFailingBody{data: "partial", err: errors.New("unexpected EOF")}, ContentLength: 100, Request: r}, nil
			}
		}
		return vResponse(r, 200, http.Header{"X-For": []string{r.URL.Path}}, "answer:"+r.URL.Path), nil
	}
	prox.lists = [][]string{{"victim", "healthy1"}, {"healthy2"}}
	prox.listFail = []bool{false, false}
	if fault == 10 { // garbage in the pending list itself
		prox.lists = [][]string{{"victim", "healthy1"}, {"healthy2"}}
		prox.garbageList = true
	}
	prox.settle = true
	ctx, cancel := context.WithCancel(context.Background())
	prox.afterLists = cancel
	pollForNewRequests(ctx, client, hp, "backend-1")
	rt.Quiesce()
	// the healthy requests are served completely and correctly
	for _, id := range []string{"healthy1", "healthy2"} {
		up := prox.uploads[id]
		rt.Assert(up != nil, "C07.healthy-request-is-answered")
		if up != nil {
			rt.Assert(up.StatusCode == 200 && prox.uploadBody[id] == "answer:/"+id && up.Header.Get("X-For") == "/"+id, "C07.healthy-request-gets-its-own-complete-response")
		}
	}
	if fault == 7 {
		rt.Cover("C07.backend-unreachable")
		up := prox.uploads["victim"]
		rt.Assert(up != nil && up.StatusCode == 502, "C07.unreachable-backend-yields-502")
	}
	rt.Cover("C07.fault-survived")
	_ = backend
}

type vFailingBody struct {
	data string
	err  error
}

func (b *vFailingBody) Read(p []byte) (int, error) {
	if b.data != "" {
		n := copy(p, b.data)
		b.data = b.data[n:]
		return n, nil
	}
	return 0, b.err
}
func (b *vFailingBody) Close() error { return nil }


// ---------------------------------------------------------------------------
// HA-2c (C02 / C01): two requests with bodies are in flight at once; each backend
// request carries its own body, whatever the interleaving of the two workers.

func VerifC02Concurrent() {
	prox, backend, client, hp := vSetup()
	bodies := map[string]string{"a": "AAAAAAAA", "b": "BBBB"}
	for id, body := range bodies {
		prox.store(id, &http.Request{Method: "POST", URL: &url.URL{Path: "/" + id}, Host: "service.example.com", Header: http.Header{}, Body: vBody{strings.NewReader(body)},
			ContentLength: int64(len(body)), Proto: "HTTP/1.1", ProtoMajor: 1, ProtoMinor: 1}, "user@example.com")
	}
	backend.respond = func(r *http.Request) (*http.Response, error) {
		return vResponse(r, 200, nil, "echo:"+r.URL.Path), nil
	}
	prox.lists = [][]string{{"a", "b"}}
	prox.listFail = []bool{false}
	ctx, cancel := context.WithCancel(context.Background())
	prox.afterLists = cancel
	pollForNewRequests(ctx, client, hp, "backend-1")
	rt.Quiesce()
	rt.Assert(len(backend.seen) == 2, "C02.both-requests-reach-the-backend")
	for i, r := range backend.seen {
		id := strings.TrimPrefix(r.URL.Path, "/")
		rt.Assert(backend.bodies[i] == bodies[id], "C02.concurrent-requests-keep-their-own-bodies")
	}
	for id := range bodies {
		rt.Assert(prox.uploads[id] != nil && prox.uploadBody[id] == "echo:/"+id, "C01.concurrent-requests-get-their-own-responses")
	}
	rt.Cover("C02.concurrent-checked")
}

// ---------------------------------------------------------------------------
// HU-6c (C06): when every upload attempt fails while the backend still has output,
// the backend-facing handler is released (nothing stays blocked).

func VerifC06Released() {
	prox, backend, client, hp := vSetup()
	prox.uploadFault["id1"] = []string{"500", "error"}[rt.Choice("uploadFailure", 2)]
	n := rt.Int("nchunks", 1, rt.Param("chunks", 3))
	var chunks []string
	for i := 0; i < n; i++ {
		chunks = append(chunks, strings.Repeat("x", []int{1, 6, 9}[rt.Choice("size"+rt.Itoa(i), 3)]))
	}
	backend.respond = func(r *http.Request) (*http.Response, error) {
		return &http.Response{StatusCode: 200, Proto: "HTTP/1.1", ProtoMajor: 1, ProtoMinor: 1, Header: http.Header{}, Body: &vChunkBody{chunks: chunks}, ContentLength: -1, Request: r}, nil
	}
	prox.store("id1", &http.Request{Method: "GET", URL: &url.URL{Path: "/big"}, Host: "service.example.com", Header: http.Header{}, Body: http.NoBody,
		Proto: "HTTP/1.1", ProtoMajor: 1, ProtoMinor: 1}, "user@example.com")
	done := make(chan int, 1)
	go func() {
		processOneRequest(client, hp, "backend-1", "id1")
		done <- 1
	}()
	blocked := rt.Quiesce()
	rt.Assert(len(done) == 1, "C06.handler-is-released-when-all-upload-attempts-fail")
	rt.Assert(blocked == 0, "C06.no-goroutine-left-blocked-after-failed-uploads")
	rt.Assert(prox.uploadRaw["id1"] <= 3, "C06.at-most-three-attempts")
	rt.Cover("C06.all-attempts-failed")
}
