//go:build verif

package main

// Harnesses for C20 (agent lifecycle): the real main(), waitForHealthy,
// runHealthChecks, healthCheck, runAdapter and the polling loop, with models of
// the process environment: http.Get for the health probe, os/signal.Notify,
// log.Fatal / return from main as exit events, Google credential discovery, and
// the virtual clock.

import (
	"context"
	"errors"
	"net/http"
	"net/url"
	"os"
	"syscall"
	"time"

	"golang.org/x/oauth2/google"

	rt "github.com/google/inverting-proxy/zzverifrt"
)

type lifeEnv struct {
	prox      *vProxy
	backend   *vBackend
	health    []bool // scripted results of successive health checks
	checks    int
	exit      string
	exitAt    time.Duration
	exitCheck int
	start     time.Time
	sigCh     chan<- os.Signal
	sigSet    []os.Signal
	mainDone  bool
	listTimes []time.Duration
	listAfter []int // number of health checks performed before each list call
}

func (env *lifeEnv) install() {
	vResetFlags()
	*backendID = "backend-1"
	env.prox = newVProxy()
	env.backend = &vBackend{}
	http.DefaultTransport = env.backend
	env.start = time.Now()
	rt.Stub("net/http.Get", func(u string) (*http.Response, error) {
		k := env.checks
		env.checks++
		if k >= len(env.health) {
			select {} // no further scripted results: the probe never returns
		}
		if !env.health[k] {
			if rt.Bool("health." + rt.Itoa(k) + ".isStatus500") {
				return vPlain(500, "unhealthy", nil), nil
			}
			return nil, errors.New("connection refused")
		}
		return vPlain(200, "ok", nil), nil
	})
	rt.Stub("golang.org/x/oauth2/google.NewSDKConfig", func(account string) (*google.SDKConfig, error) {
		return nil, errors.New("no gcloud configuration")
	})
	rt.Stub("golang.org/x/oauth2/google.DefaultClient", func(ctx context.Context, scope ...string) (*http.Client, error) {
		return &http.Client{Transport: env.prox}, nil
	})
	rt.Stub("cloud.google.com/go/compute/metadata.OnGCE", func() bool { return false })
	rt.Stub("os/signal.Notify", func(c chan<- os.Signal, sig ...os.Signal) {
		env.sigCh = c
		env.sigSet = append([]os.Signal{}, sig...)
	})
	rt.OnExit(func(why string) {
		env.exit = why
		env.exitAt = time.Since(env.start)
		env.exitCheck = env.checks
	})
}

// deliver models signal delivery: the channel gets the signal iff it is in the registered set.
func (env *lifeEnv) deliver(s os.Signal) {
	for _, r := range env.sigSet {
		if r == s {
			select {
			case env.sigCh <- s:
			default:
			}
		}
	}
}

// VerifC20Health (HA-20a): health gating and unhealthy exit over every history
// of passing / failing checks.
func VerifC20Health() {
	env := &lifeEnv{}
	env.install()
	n := rt.Param("checks", 4)
	for k := 0; k < n; k++ {
		env.health = append(env.health, rt.Bool("health."+rt.Itoa(k)))
	}
	threshold := rt.Int("threshold", 0, rt.Param("maxThreshold", 3))
	*healthCheckFreq = 1
	*healthCheckUnhealthy = threshold
	if threshold < 1 {
		threshold = 1 // the documented minimum
	}
	// every list call is recorded with the number of health checks done so far
	env.prox.lists = nil
	origAfter := func() {}
	env.prox.afterLists = origAfter
	env.prox.onList = func() {
		env.listAfter = append(env.listAfter, env.checks)
		if env.checks >= len(env.health) || env.prox.listCalls > 40 {
			select {} // the scripted history is over: this long poll never returns
		}
		// between list calls the poller lets time pass (the real proxy long-polls)
		time.Sleep(300 * time.Millisecond)
	}
	go func() {
		rt.Daemon()
		main()
		env.mainDone = true
	}()
	rt.Quiesce()

	// reference model
	first := -1
	for k, ok := range env.health {
		if ok {
			first = k
			break
		}
	}
	for _, c := range env.listAfter {
		rt.Assert(first >= 0 && c > first, "C20.no-list-call-before-a-health-check-passed")
	}
	if first >= 0 {
		rt.Cover("C20.became-healthy")
		rt.Assert(len(env.listAfter) > 0, "C20.polling-starts-once-healthy")
	} else {
		rt.Assert(len(env.listAfter) == 0 && env.exit == "", "C20.agent-waits-for-the-first-healthy-check")
		return
	}
	// after the gate: consecutive failures of the periodic checks
	wantExitAfter := -1
	run := 0
	for k := first + 1; k < len(env.health); k++ {
		if env.health[k] {
			run = 0
		} else {
			run++
		}
		if run >= threshold {
			wantExitAfter = k + 1
			break
		}
	}
	if wantExitAfter >= 0 {
		rt.Cover("C20.unhealthy-exit")
		rt.Assert(env.exit != "" && env.exitCheck == wantExitAfter, "C20.agent-exits-once-the-threshold-of-consecutive-failures-is-reached")
	} else {
		rt.Assert(env.exit == "", "C20.agent-keeps-running-while-failures-stay-below-the-threshold")
	}
}

// VerifC20Shutdown (HA-20b): SIGINT / SIGTERM at a symbolic point of one
// request's life, with and without a grace period.
func VerifC20Shutdown() {
	env := &lifeEnv{}
	env.install()
	grace := []time.Duration{0, 5 * time.Second}[rt.Choice("grace", 2)]
	*gracefulShutdownTimeout = grace
	sig := []os.Signal{syscall.SIGINT, syscall.SIGTERM, syscall.SIGHUP}[rt.Choice("signal", 3)]
	// when the signal arrives: 0 while the first list call is in flight, 1 while the
	// request is at the backend, 2 after it was answered
	when := rt.Choice("when", 3)
	backendLatency := []time.Duration{time.Second, 10 * time.Second}[rt.Choice("backendLatency", 2)]

	env.prox.store("r1", &http.Request{Method: "GET", URL: &url.URL{Path: "/job"}, Host: "service.example.com", Header: http.Header{}, Body: http.NoBody,
		Proto: "HTTP/1.1", ProtoMajor: 1, ProtoMinor: 1}, "user@example.com")
	env.prox.lists = [][]string{{"r1"}}
	env.prox.listFail = []bool{false}
	var signalAt time.Duration = -1
	send := func() {
		if signalAt < 0 {
			signalAt = time.Since(env.start)
			env.deliver(sig)
		}
	}
	listsAfterSignal := 0
	failing := rt.Bool("listCallsFailFromTheSignalOn")
	env.prox.listFailFn = func() bool { return failing && signalAt >= 0 }
	env.prox.onList = func() {
		if signalAt >= 0 && time.Since(env.start) > signalAt {
			listsAfterSignal++
		}
		if when == 0 && env.prox.listCalls == 1 {
			send()
		}
		if env.prox.listCalls > 40 {
			select {}
		}
		time.Sleep(300 * time.Millisecond) // long poll
	}
	env.backend.respond = func(r *http.Request) (*http.Response, error) {
		if when == 1 {
			send()
		}
		time.Sleep(backendLatency)
		return vResponse(r, 200, nil, "job-done"), nil
	}
	go func() {
		rt.Daemon()
		main()
		env.mainDone = true
		env.exitAt = time.Since(env.start)
	}()
	if when == 2 {
		// let the request complete, then signal
		for i := 0; i < 40 && env.prox.uploads["r1"] == nil; i++ {
			time.Sleep(500 * time.Millisecond)
		}
		send()
	}
	rt.Quiesce()
	exited := env.exit != "" || env.mainDone
	if sig == syscall.SIGHUP {
		rt.Cover("C20.other-signal")
		rt.Assert(!exited, "C20.only-sigint-and-sigterm-shut-the-agent-down")
		return
	}
	rt.Assert(signalAt >= 0, "C20.signal-was-sent")
	rt.Assert(exited, "C20.agent-exits-after-the-signal")
	if !exited {
		return
	}
	if grace == 0 {
		rt.Cover("C20.prompt-exit")
		rt.Assert(env.mainDone && env.exitAt == signalAt, "C20.without-grace-period-the-agent-exits-promptly")
		return
	}
	rt.Cover("C20.graceful")
	rt.Assert(env.exitAt == signalAt+grace, "C20.process-exits-when-the-grace-period-ends")
	// the list call in flight at the signal may return; after that no new one starts
	rt.Assert(listsAfterSignal <= 1, "C20.no-new-polls-after-the-in-flight-one-returns")
	if when == 1 && backendLatency < grace {
		rt.Cover("C20.in-flight-request-finished")
		rt.Assert(env.prox.uploads["r1"] != nil && env.prox.uploadBody["r1"] == "job-done", "C20.request-already-at-the-backend-is-answered-in-full")
	}
}
