//go:build verif

package main

// Harness HA-9 (property C09): the real forwardRequest and the real handler
// chain of hostProxy() with symbolic client headers, a symbolic proxy-asserted
// user and a symbolic flag combination. Plain requests end at the recording
// backend behind the real ReverseProxy; shim open requests end at the websocket
// dial recorder.

import (
	"context"
	"net/http"
	"net/url"
	"strings"

	"github.com/google/inverting-proxy/agent/sessions"
	"github.com/google/inverting-proxy/agent/utils"
	rt "github.com/google/inverting-proxy/zzverifrt"
)

func c09Headers() http.Header {
	hdr := http.Header{}
	n := rt.Int("nheaders", 0, rt.Param("headers", 2))
	for i := 0; i < n; i++ {
		tag := "h" + rt.Itoa(i)
		var name string
		switch rt.Choice(tag+".kind", 3+rt.Param("freeName", 1)) {
		case 0:
			name = "X-Inverting-Proxy-User-Id" // canonical form of utils.HeaderUserID
		case 1:
			name = "Authorization"
		case 2:
			name = "Cookie"
		default:
			// any other field name, as http.ReadRequest hands it over: canonical and non-empty
			name = rt.String(tag+".name", rt.Param("nameCap", 3))
			rt.Assume(rt.ASCII(name))
			rt.Assume(name != "" && http.CanonicalHeaderKey(name) == name)
		}
		nv := rt.Int(tag+".nvals", 1, 2)
		for j := 0; j < nv; j++ {
			v := "v" + rt.Itoa(j)
			if name == "X-Inverting-Proxy-User-Id" || name == "Authorization" {
				// identity and credential values are symbolic; the values of the other fields do not
				// influence any decision on this path and take representative constants
				v = rt.String(tag+".v"+rt.Itoa(j), rt.Param("valueCap", 2))
				rt.Assume(rt.ASCII(v))
			} else if name == "Cookie" {
				v = "a=b" + rt.Itoa(j)
			}
			hdr[name] = append(hdr[name], v)
		}
	}
	return hdr
}

func VerifC09Forward() {
	vResetFlags()
	*forwardUserID = rt.Bool("flag.forwardUserID")
	*stripCredentials = rt.Bool("flag.stripCredentials")
	shim := rt.Param("shim", 0) == 1
	if rt.Bool("flag.sessions") {
		sessionLRU = sessions.NewCache("proxy-session", 3600e9, 10, false)
	}
	backend := &vBackend{}
	http.DefaultTransport = backend
	shimPath := ""
	if shim {
		shimPath = "shim"
	}
	hp, err := hostProxy(context.Background(), *host, shimPath, false, false)
	rt.Assert(err == nil, "C09.handler-chain-built")

	hdr := c09Headers()
	user := rt.String("assertedUser", rt.Param("valueCap", 2))
	rt.Assume(rt.ASCII(user))
	req := &http.Request{Method: "GET", URL: &url.URL{Path: "/p"}, Host: "client.invalid", Header: hdr,
		Proto: "HTTP/1.1", ProtoMajor: 1, ProtoMinor: 1, Body: http.NoBody}
	if shim {
		req.Method = "POST"
		req.URL = &url.URL{Path: "/shim/open"}
		req.Body = vBody{strings.NewReader("ws://client.invalid/socket")}
		req.ContentLength = 26
	}
	fr := &utils.ForwardedRequest{BackendID: "b", RequestID: "r", User: user, Contents: req}
	sink := &vProxySink{}
	ferr := forwardRequest(&http.Client{Transport: sink}, hp, fr)
	rt.Observe("err", ferr != nil)

	var seen http.Header
	if shim {
		rt.Assert(rt.WSDials() == 1 && len(backend.seen) == 0, "C09.shim-open-dials-once")
		if rt.WSDials() != 1 {
			return
		}
		seen = rt.WSDialHeader(0)
	} else {
		rt.Assert(len(backend.seen) == 1, "C09.backend-invoked-once")
		if len(backend.seen) != 1 {
			return
		}
		seen = backend.seen[0].Header
	}
	if *forwardUserID {
		rt.Cover("C09.forward-on")
		var got []string
		for k, vv := range seen {
			if strings.EqualFold(k, utils.HeaderUserID) {
				got = append(got, vv...)
			}
		}
		rt.Assert(len(got) == 1, "C09.exactly-one-user-id-value")
		if len(got) >= 1 {
			rt.Assert(got[0] == user, "C09.user-id-is-the-asserted-identity")
		}
	}
	if *stripCredentials {
		rt.Cover("C09.strip-on")
		for k := range seen {
			rt.Assert(!strings.EqualFold(k, "Authorization"), "C09.no-authorization-reaches-backend")
		}
	}
}
