//go:build verif

package main

// Harnesses for the App Engine proxy (C17, C19). The handlers, the caching
// store and the persistent store are the repository's own code; underneath them
// sit Go-written models of the App Engine services: the datastore (M-ae, in
// package store), memcache (a key -> copied object map whose reads may miss at
// any time) and the users service (symbolic identities).

import (
	"bytes"
	"context"
	"errors"
	"net/http"
	"net/url"
	"strings"

	"github.com/google/inverting-proxy/app/cache"
	"github.com/google/inverting-proxy/app/store"
	"github.com/google/inverting-proxy/app/types"
	rt "github.com/google/inverting-proxy/zzverifrt"
	"google.golang.org/appengine/v2/memcache"
	"google.golang.org/appengine/v2/user"
)

type appEnv struct {
	oauthUser *user.User // nil = no valid OAuth identity
	current   *user.User
	isAdmin   bool
	module    string
	mcObj     map[string]interface{}
	mcBytes   map[string][]byte
	mcGets    int
	mcMiss    bool // memcache reads may miss (eviction)
}

func (env *appEnv) install() {
	store.VerifInstallAE()
	env.mcObj = map[string]interface{}{}
	env.mcBytes = map[string][]byte{}
	const ae = "google.golang.org/appengine/v2"
	rt.Stub(ae+"/user.CurrentOAuth", func(ctx context.Context, scopes ...string) (*user.User, error) {
		if env.oauthUser == nil {
			return nil, errors.New("M-ae: no OAuth identity")
		}
		u := *env.oauthUser
		return &u, nil
	})
	rt.Stub(ae+"/user.Current", func(ctx context.Context) *user.User { return env.current })
	rt.Stub(ae+"/user.IsAdmin", func(ctx context.Context) bool { return env.isAdmin })
	rt.Stub(ae+".ModuleName", func(ctx context.Context) string { return env.module })
	rt.Stub("("+ae+"/memcache.Codec).Set", func(c memcache.Codec, ctx context.Context, item *memcache.Item) error {
		switch v := item.Object.(type) {
		case *types.Request:
			cp := *v
			cp.Contents = append([]byte{}, v.Contents...)
			env.mcObj[item.Key] = &cp
		case *types.Response:
			cp := *v
			cp.Contents = append([]byte{}, v.Contents...)
			env.mcObj[item.Key] = &cp
		default:
			return errors.New("M-ae: unsupported memcache object")
		}
		return nil
	})
	rt.Stub("("+ae+"/memcache.Codec).Get", func(c memcache.Codec, ctx context.Context, key string, v interface{}) (*memcache.Item, error) {
		env.mcGets++
		if env.mcMiss && rt.Bool("memcache.miss."+rt.Itoa(env.mcGets)) {
			return nil, memcache.ErrCacheMiss
		}
		obj, ok := env.mcObj[key]
		if !ok {
			return nil, memcache.ErrCacheMiss
		}
		switch d := v.(type) {
		case *types.Request:
			src, ok := obj.(*types.Request)
			if !ok {
				return nil, errors.New("M-ae: memcache type mismatch")
			}
			*d = *src
			d.Contents = append([]byte{}, src.Contents...)
		case *types.Response:
			src, ok := obj.(*types.Response)
			if !ok {
				return nil, errors.New("M-ae: memcache type mismatch")
			}
			*d = *src
			d.Contents = append([]byte{}, src.Contents...)
		}
		return &memcache.Item{Key: key}, nil
	})
	rt.Stub(ae+"/memcache.Set", func(ctx context.Context, item *memcache.Item) error {
		env.mcBytes[item.Key] = append([]byte{}, item.Value...)
		return nil
	})
	rt.Stub(ae+"/memcache.Add", func(ctx context.Context, item *memcache.Item) error {
		if _, ok := env.mcBytes[item.Key]; ok {
			return memcache.ErrNotStored
		}
		env.mcBytes[item.Key] = append([]byte{}, item.Value...)
		return nil
	})
	rt.Stub(ae+"/memcache.Delete", func(ctx context.Context, key string) error {
		_, okB := env.mcBytes[key]
		_, okO := env.mcObj[key]
		if !okB && !okO {
			return memcache.ErrCacheMiss
		}
		delete(env.mcBytes, key)
		delete(env.mcObj, key)
		return nil
	})
	rt.Stub(ae+"/memcache.Flush", func(ctx context.Context) error {
		env.mcBytes = map[string][]byte{}
		env.mcObj = map[string]interface{}{}
		return nil
	})
	rt.Stub(ae+"/memcache.Get", func(ctx context.Context, key string) (*memcache.Item, error) {
		v, ok := env.mcBytes[key]
		if !ok {
			return nil, memcache.ErrCacheMiss
		}
		return &memcache.Item{Key: key, Value: append([]byte{}, v...)}, nil
	})
}

func appStore() types.Store { return cache.NewCachingStore(store.NewPersistentStore()) }

type appBody struct{ r *strings.Reader }

func (b appBody) Read(p []byte) (int, error) { return b.r.Read(p) }
func (b appBody) Close() error               { return nil }

func appRequest(method, path, body string, hdr http.Header) *http.Request {
	if hdr == nil {
		hdr = http.Header{}
	}
	return &http.Request{Method: method, URL: &url.URL{Path: path}, Header: hdr, Host: "proxy.example.com",
		Body: appBody{strings.NewReader(body)}, ContentLength: int64(len(body)), Proto: "HTTP/1.1", ProtoMajor: 1, ProtoMinor: 1}
}

func appLogTouchesOnly(allowed func(entry string) bool) bool {
	ok := true
	for _, l := range store.VerifAE.Log {
		ok = ok && allowed(l)
	}
	return ok
}

// ---------------------------------------------------------------------------
// HP-17a: agent endpoints.

func VerifC17Agent() {
	env := &appEnv{module: "agent"}
	env.install()
	ctx := context.Background()
	s := appStore()
	users := []string{rt.String("b1.backendUser", rt.Param("userCap", 2)), rt.String("b2.backendUser", rt.Param("userCap", 2))}
	rt.Assume(users[0] != "" && users[1] != "")
	ids := []string{"b1", "b2"}
	for i, id := range ids {
		store.VerifSeedBackend(&types.Backend{BackendID: id, BackendUser: users[i], EndUser: "enduser@example.com", PathPrefixes: []string{"/"}})
	}
	// one stored request per backend (written through the real store, so memcache holds them too)
	secret := []string{"SECRET-OF-B1", "SECRET-OF-B2"}
	for i, id := range ids {
		rt.Assert(s.WriteRequest(ctx, types.NewRequest(id, "r"+rt.Itoa(i+1), "enduser@example.com", []byte(secret[i]))) == nil, "C17.seed")
	}
	store.VerifAE.Log = nil

	// the caller
	switch rt.Choice("identity", 3) {
	case 0: // no / invalid OAuth token
	case 1:
		env.oauthUser = &user.User{Email: rt.String("caller", rt.Param("userCap", 2))}
	case 2:
		env.oauthUser = &user.User{Email: users[rt.Choice("caller.is", 2)]}
	}
	named := []string{"b1", "b2", "", "nobody"}[rt.Choice("backendHeader", 4)]
	reqID := []string{"r1", "r2", "", "r9"}[rt.Choice("requestHeader", 4)]
	hdr := http.Header{}
	if named != "" {
		hdr.Set(HeaderBackendID, named)
	}
	if reqID != "" {
		hdr.Set(HeaderRequestID, reqID)
	}
	endpoint := rt.Choice("endpoint", 4)
	path := []string{"/agent/pending", "/agent/request", "/agent/response", "/agent/other"}[endpoint]
	w := rt.NewRecorder()
	handleAgentRequest(ctx, s, w, appRequest("POST", path, "RESPONSE-BYTES", hdr))

	authorised := env.oauthUser != nil && ((named == "b1" && env.oauthUser.Email == users[0]) || (named == "b2" && env.oauthUser.Email == users[1]))
	if endpoint == 3 {
		rt.Assert(w.Code == 404, "C17.unknown-agent-path-is-404")
		return
	}
	if !authorised {
		rt.Cover("C17.unauthorised-agent-call")
		rt.Assert(w.Code == 401, "C17.unauthorised-agent-call-gets-401")
		rt.Assert(!strings.Contains(string(w.Body), "SECRET"), "C17.401-reveals-nothing")
		// nothing but the permission lookup touched the datastore
		rt.Assert(appLogTouchesOnly(func(l string) bool { return strings.HasPrefix(l, "get backend ") }), "C17.401-touches-only-the-permission-lookup")
		return
	}
	rt.Cover("C17.authorised-agent-call")
	rt.Assert(w.Code != 401, "C17.authorised-agent-call-is-accepted")
	own, other := secret[0], secret[1]
	ownKind, otherKind := store.VerifRequestKind("b1"), store.VerifRequestKind("b2")
	if named == "b2" {
		own, other = other, own
		ownKind, otherKind = otherKind, ownKind
	}
	_ = own
	rt.Assert(!strings.Contains(string(w.Body), other), "C17.agent-never-reads-another-backends-request")
	rt.Assert(appLogTouchesOnly(func(l string) bool { return !strings.Contains(l, " "+otherKind+" ") }), "C17.agent-call-touches-only-its-own-backends-requests")
	ownReq := "r1"
	if named == "b2" {
		ownReq = "r2"
	}
	if endpoint == 1 && reqID == ownReq {
		rt.Assert(w.Code == 200 && string(w.Body) == own, "C17.agent-fetches-its-own-request")
	}
	if endpoint == 2 && reqID != "" && reqID != ownReq {
		// a response for a request ID that is not one of this backend's requests is not stored
		rt.Assert(w.Code == 404, "C17.response-for-foreign-request-id-is-rejected")
		rt.Assert(appLogTouchesOnly(func(l string) bool { return !strings.HasPrefix(l, "put response ") }), "C17.response-for-foreign-request-id-is-not-stored")
	}
}

// ---------------------------------------------------------------------------
// HP-17b: the administration API answers only administrators.

func VerifC17Admin() {
	env := &appEnv{module: "api"}
	env.install()
	ctx := context.Background()
	s := appStore()
	store.VerifSeedBackend(&types.Backend{BackendID: "b1", BackendUser: "agent@example.com", EndUser: "enduser@example.com", PathPrefixes: []string{"/"}})
	store.VerifAE.Log = nil
	env.isAdmin = rt.Bool("isAdmin")
	if rt.Bool("hasOAuth") {
		env.oauthUser = &user.User{Email: "caller@example.com", Admin: rt.Bool("oauthAdmin")}
	}
	admin := env.isAdmin || (env.oauthUser != nil && env.oauthUser.Admin)
	method := []string{"GET", "POST", "DELETE", "PUT"}[rt.Choice("method", 4)]
	path := []string{"/api/backends", "/api/backends/b1", "/api/backends/", "/api/other"}[rt.Choice("path", 4)]
	body := `{"id":"b2","backendUser":"x@example.com","endUser":"allUsers","pathPrefixes":["/"]}`
	w := rt.NewRecorder()
	handleAPIRequest(ctx, s, w, appRequest(method, path, body, nil))
	if !admin {
		rt.Cover("C17.non-admin-api-call")
		rt.Assert(w.Code == 403, "C17.non-admin-api-call-is-forbidden")
		rt.Assert(len(store.VerifAE.Log) == 0, "C17.non-admin-api-call-touches-nothing")
		rt.Assert(!strings.Contains(string(w.Body), "agent@example.com"), "C17.non-admin-learns-nothing")
		return
	}
	rt.Cover("C17.admin-api-call")
	if method == "GET" && path == "/api/backends" {
		rt.Assert(w.Code == 200 && strings.Contains(string(w.Body), "b1"), "C17.admin-lists-backends")
	}
	if method == "POST" && path == "/api/backends" {
		rt.Assert(w.Code == 200 && store.VerifHasEntity("backend", "b2"), "C17.admin-adds-backend")
	}
	if method == "DELETE" && path == "/api/backends/b1" {
		rt.Assert(w.Code == 200 && !store.VerifHasEntity("backend", "b1"), "C17.admin-deletes-backend")
	}
}

// ---------------------------------------------------------------------------
// HP-17c / HP-19b: end users are only routed to their own or shared backends;
// the bytes an agent fetches are the client's serialised request; the client
// gets the response posted under its request ID, or 504.

func VerifC19Relay() {
	env := &appEnv{module: "default"}
	env.install()
	env.mcMiss = rt.Param("memcacheMiss", 0) == 1
	ctx := context.Background()
	s := appStore()
	owner := []string{"alice@example.com", "allUsers", "bob@example.com"}[rt.Choice("owner", 3)]
	store.VerifSeedBackend(&types.Backend{BackendID: "b1", BackendUser: "agent@example.com", EndUser: owner, PathPrefixes: []string{"/"}})
	if rt.Bool("agentSeen") {
		_, _ = s.ListPendingRequests(ctx, "b1") // registers the agent as seen just now
	}
	seen := store.VerifHasEntity("backendTracker", "b1")
	if rt.Bool("signedIn") {
		env.current = &user.User{Email: "alice@example.com"}
	}
	env.oauthUser = &user.User{Email: "agent@example.com"}
	payload := rt.String("payload", rt.Param("payloadCap", 2))
	respBody := rt.String("response", rt.Param("payloadCap", 2))

	// the agent side runs concurrently with the client's call
	agentDone := make(chan bool, 1)
	posted := false
	var fetched string
	go func() {
		rt.Daemon()
		actx := context.Background()
		for round := 0; round < rt.Param("agentRounds", 3); round++ {
			ids, err := s.ListPendingRequests(actx, "b1")
			if err == nil && len(ids) > 0 {
				hdr := http.Header{}
				hdr.Set(HeaderBackendID, "b1")
				hdr.Set(HeaderRequestID, ids[0])
				w := rt.NewRecorder()
				requestHandler(actx, s, w, appRequest("GET", "/agent/request", "", hdr))
				if w.Code == 200 {
					fetched = string(w.Body)
					w2 := rt.NewRecorder()
					var wire bytes.Buffer
					backendResp := &http.Response{StatusCode: 201, Proto: "HTTP/1.1", ProtoMajor: 1, ProtoMinor: 1,
						Header: http.Header{"X-Backend": []string{"yes"}}, Body: appBody{strings.NewReader(respBody)}, ContentLength: -1}
					backendResp.Write(&wire)
					responseHandler(actx, s, w2, appRequest("POST", "/agent/response", wire.String(), hdr))
					posted = w2.Code == 200
				}
				break
			}
			rt.Yield()
		}
		agentDone <- true
	}()

	// the client's side of the store may suffer transient read failures while it
	// waits for the response (HP-19d)
	var cs types.Store = s
	readFaulted := false
	if rt.Param("readFaults", 0) > 0 && rt.Bool("readFault") {
		fs := &c19FlakyReadStore{Store: s, failFrom: rt.Choice("readFault.at", 2), failures: 1}
		cs = fs
		readFaulted = true
	}
	w := rt.NewRecorder()
	r := appRequest("POST", "/page", payload, nil)
	proxyHandler(ctx, cs, "req-1", w, r)
	<-agentDone

	allowedUser := env.current != nil && (owner == "alice@example.com" || owner == "allUsers")
	if env.current == nil {
		rt.Assert(w.Code == 401, "C17.anonymous-end-user-is-rejected")
		return
	}
	if !allowedUser || !seen {
		rt.Cover("C19.not-routed")
		rt.Assert(w.Code == 404, "C17.end-user-is-only-routed-to-own-or-shared-live-backends")
		rt.Assert(fetched == "", "C17.no-request-is-stored-for-a-foreign-backend")
		return
	}
	rt.Cover("C19.routed")
	if fetched != "" {
		rt.Cover("C19.agent-fetched")
		rt.Assert(strings.Contains(fetched, payload) && strings.Contains(fetched, "/page"), "C19.agent-fetches-the-clients-serialised-request")
	}
	rt.Assert(w.Code == 504 || posted, "C19.client-gets-504-unless-a-response-was-posted")
	if posted {
		// the agent posts without any (virtual) time passing, i.e. well inside the
		// client's wait: the client must receive it, also when one of its polls of
		// the store failed transiently
		if readFaulted {
			rt.Cover("C19.client-poll-failed-transiently")
		}
		rt.Assert(w.Code != 504, "C19.response-posted-in-time-reaches-the-waiting-client")
	}
	if w.Code != 504 && w.Code != 500 {
		rt.Cover("C19.client-got-the-response")
		rt.Assert(w.Code == 201 && string(w.Body) == respBody && w.H.Get("X-Backend") == "yes", "C19.client-receives-exactly-the-posted-response")
	}
}

// ---------------------------------------------------------------------------
// HP-19c: responseHandler never hangs, whatever store operations fail.

type c19FailingStore struct {
	types.Store
	failRead, failWriteResponse, failWriteRequest bool
}

func (f *c19FailingStore) ReadRequest(ctx context.Context, b, r string) (*types.Request, error) {
	if f.failRead {
		return nil, errors.New("injected")
	}
	return f.Store.ReadRequest(ctx, b, r)
}
func (f *c19FailingStore) WriteResponse(ctx context.Context, r *types.Response) error {
	if f.failWriteResponse {
		return errors.New("injected")
	}
	return f.Store.WriteResponse(ctx, r)
}
func (f *c19FailingStore) WriteRequest(ctx context.Context, r *types.Request) error {
	if f.failWriteRequest {
		return errors.New("injected")
	}
	return f.Store.WriteRequest(ctx, r)
}

// c19FlakyReadStore fails `failures` consecutive ReadResponse calls, starting
// with call number failFrom, with a transient (not "no such entity") error.
type c19FlakyReadStore struct {
	types.Store
	calls, failFrom, failures int
}

func (f *c19FlakyReadStore) ReadResponse(ctx context.Context, b, r string) (*types.Response, error) {
	n := f.calls
	f.calls++
	if n >= f.failFrom && n < f.failFrom+f.failures {
		return nil, errors.New("injected transient read failure")
	}
	return f.Store.ReadResponse(ctx, b, r)
}

func VerifC19NoHang() {
	env := &appEnv{module: "agent"}
	env.install()
	ctx := context.Background()
	base := appStore()
	store.VerifSeedBackend(&types.Backend{BackendID: "b1", BackendUser: "agent@example.com", EndUser: "allUsers", PathPrefixes: []string{"/"}})
	rt.Assert(base.WriteRequest(ctx, types.NewRequest("b1", "r1", "u@example.com", []byte("REQ"))) == nil, "C19.seed")
	env.oauthUser = &user.User{Email: "agent@example.com"}
	s := &c19FailingStore{Store: base, failRead: rt.Bool("fail.read"), failWriteResponse: rt.Bool("fail.writeResponse"), failWriteRequest: rt.Bool("fail.writeRequest")}
	hdr := http.Header{}
	hdr.Set(HeaderBackendID, "b1")
	hdr.Set(HeaderRequestID, "r1")
	done := make(chan int, 1)
	go func() {
		w := rt.NewRecorder()
		responseHandler(ctx, s, w, appRequest("POST", "/agent/response", "RESP", hdr))
		done <- w.Code
	}()
	rt.Quiesce()
	rt.Assert(len(done) == 1, "C19.response-call-returns-whatever-store-operations-fail")
	if len(done) == 1 {
		code := <-done
		rt.Assert(code == 200 || code == 404, "C19.response-call-answered")
		rt.Cover("C19.response-call-returned")
	}
}

// ---------------------------------------------------------------------------
// HP-17e: histories. A backend is re-registered for another backend user between
// two agent calls: the previous backend user must be rejected afterwards and the
// new one accepted (no stale authorisation anywhere in the store layers).

func VerifC17History() {
	env := &appEnv{module: "agent"}
	env.install()
	ctx := context.Background()
	s := appStore()
	first, second := "old-agent@example.com", "new-agent@example.com"
	rt.Assert(s.AddBackend(ctx, &types.Backend{BackendID: "b1", BackendUser: first, EndUser: "allUsers", PathPrefixes: []string{"/"}}) == nil, "C17.seed")
	rt.Assert(s.WriteRequest(ctx, types.NewRequest("b1", "r1", "u@example.com", []byte("REQ"))) == nil, "C17.seed")
	hdr := http.Header{}
	hdr.Set(HeaderBackendID, "b1")
	hdr.Set(HeaderRequestID, "r1")
	call := func(who string) int {
		env.oauthUser = &user.User{Email: who}
		w := rt.NewRecorder()
		endpoint := []string{"/agent/pending", "/agent/request"}[rt.Choice("endpoint", 2)]
		handleAgentRequest(ctx, s, w, appRequest("GET", endpoint, "", hdr))
		return w.Code
	}
	steps := rt.Int("callsBefore", 0, 2)
	for i := 0; i < steps; i++ {
		rt.Assert(call(first) != 401, "C17.registered-backend-user-is-accepted")
	}
	switch rt.Choice("admin.action", 3) {
	case 0: // re-register the backend for another backend user
		rt.Assert(s.AddBackend(ctx, &types.Backend{BackendID: "b1", BackendUser: second, EndUser: "allUsers", PathPrefixes: []string{"/"}}) == nil, "C17.re-register")
		rt.Cover("C17.backend-re-registered")
		rt.Assert(call(first) == 401, "C17.previous-backend-user-is-rejected-after-re-registration")
		rt.Assert(call(second) != 401, "C17.new-backend-user-is-accepted-after-re-registration")
	case 1: // delete the backend
		rt.Assert(s.DeleteBackend(ctx, "b1") == nil, "C17.delete")
		rt.Assert(call(first) == 401, "C17.backend-user-of-a-deleted-backend-is-rejected")
	default:
		rt.Assert(call(second) == 401, "C17.unregistered-identity-is-rejected")
	}
}
