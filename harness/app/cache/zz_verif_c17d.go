//go:build verif

package cache

// Harness HC-17d (C17): the memcache keys under which requests and responses are
// cached identify the (backend ID, request ID) pair uniquely, so one backend's
// agent can never name another backend's cached request through a crafted
// request ID. The real fmt verb handling (%q -> strconv.Quote) is interpreted.

import (
	rt "github.com/google/inverting-proxy/zzverifrt"
)

func c17Str(name string, cap int) string {
	s := rt.String(name, cap)
	// the interesting alphabet: a letter, the separator, the quote and the escape character
	ok := true
	for i := 0; i < len(s); i++ {
		c := s[i]
		ok = ok && (c == 'a' || c == ':' || c == '"' || (rt.Param("backslash", 0) == 1 && c == '\\'))
	}
	rt.Assume(ok)
	return s
}

func VerifC17Keys() {
	bc, rc := rt.Param("backendCap", 2), rt.Param("idCap", 2)
	b1, r1, b2, r2 := c17Str("b1", bc), c17Str("r1", rc), c17Str("b2", bc), c17Str("r2", rc)
	same := b1 == b2 && r1 == r2
	if memcacheRequestKey(b1, r1) == memcacheRequestKey(b2, r2) {
		rt.Cover("C17.equal-request-keys")
		rt.Assert(same, "C17.request-cache-key-identifies-backend-and-request")
	}
	if memcacheResponseKey(b1, r1) == memcacheResponseKey(b2, r2) {
		rt.Assert(same, "C17.response-cache-key-identifies-backend-and-request")
	}
	rt.Assert(memcacheRequestKey(b1, r1) != memcacheResponseKey(b2, r2), "C17.request-and-response-keys-are-disjoint")
}
