//go:build verif

package store

// Harness HSt-19a (C19): requests and responses of any size read back
// byte-identical through the real persistentStore (blob splitting into the
// inline part and continuation parts), a completed request is no longer listed
// as pending, and failing datastore writes surface as errors without leaving the
// call hanging. The 1,000,000-byte inline / part limit is scaled to 4 so that
// every byte can be symbolic.

import (
	"bytes"
	"context"

	"github.com/google/inverting-proxy/app/types"
	rt "github.com/google/inverting-proxy/zzverifrt"
)

func c19Contains(l []string, s string) bool {
	for _, x := range l {
		if x == s {
			return true
		}
	}
	return false
}

func VerifC19Blob() {
	VerifInstallAE()
	VerifAE.Faults = rt.Param("faults", 0) == 1
	ctx := context.Background()
	d := &persistentStore{}
	reqBytes := rt.Bytes("request", rt.Param("payloadCap", 9))
	respBytes := rt.Bytes("response", rt.Param("payloadCap", 9))
	wantReq := append([]byte{}, reqBytes...)
	wantResp := append([]byte{}, respBytes...)

	req := types.NewRequest("backend", "id1", "user@example.com", reqBytes)
	if err := d.WriteRequest(ctx, req); err != nil {
		rt.Cover("C19.write-failure-reported")
		rt.Assert(VerifAE.Faults, "C19.write-request-fails-only-on-storage-errors")
		return
	}
	pending, err := d.ListPendingRequests(ctx, "backend")
	if err == nil {
		rt.Assert(c19Contains(pending, "id1"), "C19.uncompleted-request-is-pending")
	}
	resp := &types.Response{BackendID: "backend", RequestID: "id1", Contents: respBytes, StartTime: req.StartTime}
	if err := d.WriteResponse(ctx, resp); err != nil {
		rt.Cover("C19.write-failure-reported")
		rt.Assert(VerifAE.Faults, "C19.write-response-fails-only-on-storage-errors")
		return
	}
	// the proxy marks the request completed after the response was stored
	req.Completed = true
	if err := d.WriteRequest(ctx, req); err != nil {
		rt.Assert(VerifAE.Faults, "C19.write-request-fails-only-on-storage-errors")
		return
	}
	gotReq, err := d.ReadRequest(ctx, "backend", "id1")
	if err != nil {
		rt.Assert(VerifAE.Faults, "C19.read-request-fails-only-on-storage-errors")
		return
	}
	rt.Assert(bytes.Equal(gotReq.Contents, wantReq), "C19.request-bytes-read-back-identical")
	rt.Assert(gotReq.User == "user@example.com" && gotReq.RequestID == "id1" && gotReq.BackendID == "backend" && gotReq.Completed, "C19.request-fields-read-back")
	gotResp, err := d.ReadResponse(ctx, "backend", "id1")
	if err != nil {
		rt.Assert(VerifAE.Faults, "C19.read-response-fails-only-on-storage-errors")
		return
	}
	rt.Assert(bytes.Equal(gotResp.Contents, wantResp), "C19.response-bytes-read-back-identical")
	pending, err = d.ListPendingRequests(ctx, "backend")
	if err == nil {
		rt.Assert(!c19Contains(pending, "id1"), "C19.completed-request-is-not-pending")
	}
	if len(wantReq) >= fieldByteLimit {
		rt.Cover("C19.request-spans-parts")
	}
	if len(wantReq) >= 2*fieldByteLimit && len(wantResp) >= 2*fieldByteLimit {
		rt.Cover("C19.both-span-several-parts")
	}
	rt.Observe("sizes", len(wantReq), len(wantResp))
}
