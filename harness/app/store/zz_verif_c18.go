//go:build verif

package store

// Harness HSt-18a (C18): longest-prefix selection against an independent
// specification written from the property statement.

import (
	"strings"

	"github.com/google/inverting-proxy/app/types"
	rt "github.com/google/inverting-proxy/zzverifrt"
)

func VerifC18LongestPrefix() {
	path := rt.String("path", rt.Param("pathCap", 4))
	maxB := rt.Param("backends", 3)
	prefCap := rt.Param("prefixCap", 3)
	nb := rt.Int("nbackends", 0, maxB)
	var backends []*types.Backend
	for i := 0; i < nb; i++ {
		tag := "b" + rt.Itoa(i)
		b := &types.Backend{BackendID: rt.String(tag+".id", 2)}
		// parseBackend rejects empty ids; ids are datastore keys, hence distinct
		rt.Assume(b.BackendID != "")
		for _, o := range backends {
			rt.Assume(o.BackendID != b.BackendID)
		}
		np := rt.Int(tag+".nprefixes", 1, rt.Param("prefixes", 2))
		for j := 0; j < np; j++ {
			b.PathPrefixes = append(b.PathPrefixes, rt.String(tag+".p"+rt.Itoa(j), prefCap))
		}
		backends = append(backends, b)
	}
	got, err := mostSpecificMatchingBackend(path, backends)
	again, err2 := mostSpecificMatchingBackend(path, backends)
	rt.Assert(got == again && (err == nil) == (err2 == nil), "C18.deterministic")

	// independent specification
	best := -1
	for _, b := range backends {
		for _, p := range b.PathPrefixes {
			if len(p) <= len(path) && path[:len(p)] == p && len(p) > best {
				best = len(p)
			}
		}
	}
	rt.Observe("result", got, err != nil)
	if best < 0 {
		rt.Cover("C18.no-match")
		rt.Assert(err != nil, "C18.no-match-is-error")
		return
	}
	rt.Cover("C18.match")
	rt.Assert(err == nil, "C18.match-found")
	ok := false
	for _, b := range backends {
		if b.BackendID != got {
			continue
		}
		for _, p := range b.PathPrefixes {
			if strings.HasPrefix(path, p) && len(p) == best {
				ok = true
			}
		}
	}
	rt.Assert(ok, "C18.chosen-backend-has-a-longest-matching-prefix")
}
