//go:build verif

package store

// M-ae: the App Engine datastore as a strongly consistent key -> entity map,
// written in Go and installed over the datastore package's entry points with
// rt.Stub (so the repository's own store code runs unchanged on top of it).
// Entities are copied on Put and on Get (value semantics, as the real
// serialisation gives). Queries are filters over the map. Every Put / Get /
// query may fail with an injected error when the harness enables faults.
// Outside: eventual consistency of real queries, real size limits, indexes.

import (
	"context"
	"errors"
	"time"

	"github.com/google/inverting-proxy/app/types"
	rt "github.com/google/inverting-proxy/zzverifrt"
	"google.golang.org/appengine/v2/datastore"
)

type aeKey struct {
	kind, id string
}

type aeEntity struct {
	k   aeKey
	val interface{}
}

type aeQuery struct {
	kind     string
	field    string // "" = no filter
	op       string // "=", "<", ">"
	val      interface{}
	keysOnly bool
	limit    int
}

// VerifAE is the model's state (one datastore per harness run).
var VerifAE struct {
	Entities   []aeEntity
	keys       map[*datastore.Key]aeKey
	queries    map[*datastore.Query]aeQuery
	Faults     bool // Put/Get/GetAll may fail with a symbolic fault
	faultSeq   int
	Puts, Gets int
	PutKinds   []string
	Log        []string // "<op> <kind> <id>"
}

var errInjected = errors.New("M-ae: injected datastore failure")

func aeFault(op string) bool {
	if !VerifAE.Faults {
		return false
	}
	VerifAE.faultSeq++
	return rt.Bool("ae.fault." + op + "." + rt.Itoa(VerifAE.faultSeq))
}

func aeCopyBytes(b []byte) []byte {
	if b == nil {
		return nil
	}
	return append([]byte{}, b...)
}

func aeCopyBlob(b blob) blob {
	return blob{Inlined: aeCopyBytes(b.Inlined), Parts: append([]string(nil), b.Parts...)}
}

// aeClone copies an entity value (the model's stand-in for serialisation).
func aeClone(src interface{}) interface{} {
	switch v := src.(type) {
	case *storedRequest:
		c := *v
		c.RequestBytes = aeCopyBlob(v.RequestBytes)
		return &c
	case *storedResponse:
		c := *v
		c.ResponseBytes = aeCopyBlob(v.ResponseBytes)
		return &c
	case *blobPart:
		c := *v
		c.Bytes = aeCopyBytes(v.Bytes)
		return &c
	case *backendTracker:
		c := *v
		return &c
	case *activityTracker:
		c := *v
		return &c
	case *types.Backend:
		c := *v
		c.PathPrefixes = append([]string(nil), v.PathPrefixes...)
		return &c
	}
	panic("M-ae: unsupported entity type")
}

func aeAssign(dst, val interface{}) bool {
	switch d := dst.(type) {
	case *storedRequest:
		if v, ok := val.(*storedRequest); ok {
			*d = *(aeClone(v).(*storedRequest))
			return true
		}
	case *storedResponse:
		if v, ok := val.(*storedResponse); ok {
			*d = *(aeClone(v).(*storedResponse))
			return true
		}
	case *blobPart:
		if v, ok := val.(*blobPart); ok {
			*d = *(aeClone(v).(*blobPart))
			return true
		}
	case *backendTracker:
		if v, ok := val.(*backendTracker); ok {
			*d = *v
			return true
		}
	case *activityTracker:
		if v, ok := val.(*activityTracker); ok {
			*d = *v
			return true
		}
	case *types.Backend:
		if v, ok := val.(*types.Backend); ok {
			*d = *(aeClone(v).(*types.Backend))
			return true
		}
	}
	return false
}

func aeFind(k aeKey) int {
	for i := range VerifAE.Entities {
		if VerifAE.Entities[i].k == k {
			return i
		}
	}
	return -1
}

func aePutRaw(k aeKey, val interface{}) {
	if i := aeFind(k); i >= 0 {
		VerifAE.Entities[i].val = val
		return
	}
	VerifAE.Entities = append(VerifAE.Entities, aeEntity{k, val})
}

func aeTimeField(val interface{}, field string) (time.Time, bool) {
	switch v := val.(type) {
	case *storedRequest:
		if field == "StartTime" {
			return v.StartTime, true
		}
	case *storedResponse:
		if field == "StartTime" {
			return v.StartTime, true
		}
	case *blobPart:
		if field == "StartTime" {
			return v.StartTime, true
		}
	case *backendTracker:
		if field == "LastSeen" {
			return v.LastSeen, true
		}
	}
	return time.Time{}, false
}

func aeMatches(q aeQuery, e aeEntity) bool {
	if e.k.kind != q.kind {
		return false
	}
	switch q.field {
	case "":
		return true
	case "EndUser":
		b, ok := e.val.(*types.Backend)
		return ok && b.EndUser == q.val.(string)
	case "Completed":
		r, ok := e.val.(*storedRequest)
		return ok && r.Completed == q.val.(bool)
	case "StartTime", "LastSeen":
		t, ok := aeTimeField(e.val, q.field)
		if !ok {
			return false
		}
		c := q.val.(time.Time)
		if q.op == "<" {
			return t.Before(c)
		}
		return t.After(c)
	}
	panic("M-ae: unsupported query filter " + q.field)
}

// VerifInstallAE installs the model. Safe to call once per harness run.
func VerifInstallAE() {
	VerifAE.Entities = nil
	VerifAE.keys = map[*datastore.Key]aeKey{}
	VerifAE.queries = map[*datastore.Query]aeQuery{}
	const ds = "google.golang.org/appengine/v2/datastore."
	rt.Stub(ds+"NewKey", func(ctx context.Context, kind, stringID string, intID int64, parent *datastore.Key) *datastore.Key {
		k := new(datastore.Key)
		VerifAE.keys[k] = aeKey{kind, stringID}
		return k
	})
	rt.Stub("(*"+ds+"Key).StringID", func(k *datastore.Key) string { return VerifAE.keys[k].id })
	rt.Stub("(*"+ds+"Key).Kind", func(k *datastore.Key) string { return VerifAE.keys[k].kind })
	rt.Stub(ds+"Put", func(ctx context.Context, key *datastore.Key, src interface{}) (*datastore.Key, error) {
		k := VerifAE.keys[key]
		VerifAE.Puts++
		if aeFault("put") {
			VerifAE.Log = append(VerifAE.Log, "put-failed "+k.kind+" "+k.id)
			return nil, errInjected
		}
		VerifAE.Log = append(VerifAE.Log, "put "+k.kind+" "+k.id)
		VerifAE.PutKinds = append(VerifAE.PutKinds, k.kind)
		aePutRaw(k, aeClone(src))
		return key, nil
	})
	rt.Stub(ds+"Get", func(ctx context.Context, key *datastore.Key, dst interface{}) error {
		k := VerifAE.keys[key]
		VerifAE.Gets++
		VerifAE.Log = append(VerifAE.Log, "get "+k.kind+" "+k.id)
		if aeFault("get") {
			return errInjected
		}
		i := aeFind(k)
		if i < 0 {
			return datastore.ErrNoSuchEntity
		}
		if !aeAssign(dst, VerifAE.Entities[i].val) {
			return errors.New("M-ae: entity type mismatch")
		}
		return nil
	})
	rt.Stub(ds+"GetMulti", func(ctx context.Context, keys []*datastore.Key, dst interface{}) error {
		parts, ok := dst.([]*blobPart)
		if !ok || len(parts) != len(keys) {
			return errors.New("M-ae: GetMulti supports []*blobPart of matching length only")
		}
		if aeFault("getmulti") {
			return errInjected
		}
		for j, key := range keys {
			k := VerifAE.keys[key]
			VerifAE.Log = append(VerifAE.Log, "get "+k.kind+" "+k.id)
			i := aeFind(k)
			if i < 0 {
				return datastore.ErrNoSuchEntity
			}
			if !aeAssign(parts[j], VerifAE.Entities[i].val) {
				return errors.New("M-ae: entity type mismatch")
			}
		}
		return nil
	})
	del := func(key *datastore.Key) error {
		k := VerifAE.keys[key]
		VerifAE.Log = append(VerifAE.Log, "delete "+k.kind+" "+k.id)
		i := aeFind(k)
		if i < 0 {
			return nil // deleting a missing entity is not an error in the datastore
		}
		VerifAE.Entities = append(VerifAE.Entities[:i:i], VerifAE.Entities[i+1:]...)
		return nil
	}
	rt.Stub(ds+"Delete", func(ctx context.Context, key *datastore.Key) error { return del(key) })
	rt.Stub(ds+"DeleteMulti", func(ctx context.Context, keys []*datastore.Key) error {
		for _, k := range keys {
			del(k)
		}
		return nil
	})
	rt.Stub(ds+"RunInTransaction", func(ctx context.Context, f func(context.Context) error, opts *datastore.TransactionOptions) error {
		return f(ctx)
	})
	rt.Stub(ds+"NewQuery", func(kind string) *datastore.Query {
		q := new(datastore.Query)
		VerifAE.queries[q] = aeQuery{kind: kind}
		return q
	})
	derive := func(q *datastore.Query, f func(*aeQuery)) *datastore.Query {
		n := new(datastore.Query)
		info := VerifAE.queries[q]
		f(&info)
		VerifAE.queries[n] = info
		return n
	}
	rt.Stub("(*"+ds+"Query).Filter", func(q *datastore.Query, filterStr string, value interface{}) *datastore.Query {
		return derive(q, func(i *aeQuery) {
			n := len(filterStr)
			i.op = filterStr[n-1:]
			i.field = filterStr[:n-1]
			i.val = value
		})
	})
	rt.Stub("(*"+ds+"Query).Distinct", func(q *datastore.Query) *datastore.Query { return derive(q, func(i *aeQuery) {}) })
	rt.Stub("(*"+ds+"Query).KeysOnly", func(q *datastore.Query) *datastore.Query {
		return derive(q, func(i *aeQuery) { i.keysOnly = true })
	})
	rt.Stub("(*"+ds+"Query).Limit", func(q *datastore.Query, limit int) *datastore.Query {
		return derive(q, func(i *aeQuery) { i.limit = limit })
	})
	rt.Stub("(*"+ds+"Query).GetAll", func(q *datastore.Query, ctx context.Context, dst interface{}) ([]*datastore.Key, error) {
		info := VerifAE.queries[q]
		VerifAE.Log = append(VerifAE.Log, "query "+info.kind+" "+info.field)
		if aeFault("query") {
			return nil, errInjected
		}
		var keys []*datastore.Key
		n := 0
		for _, e := range VerifAE.Entities {
			if !aeMatches(info, e) {
				continue
			}
			if info.limit > 0 && n >= info.limit {
				break
			}
			n++
			k := new(datastore.Key)
			VerifAE.keys[k] = e.k
			keys = append(keys, k)
			if info.keysOnly {
				continue
			}
			switch d := dst.(type) {
			case *[]*types.Backend:
				*d = append(*d, aeClone(e.val).(*types.Backend))
			case *[]*storedRequest:
				*d = append(*d, aeClone(e.val).(*storedRequest))
			default:
				return nil, errors.New("M-ae: unsupported GetAll destination")
			}
		}
		return keys, nil
	})
}

// Seeding helpers for harnesses in other packages.

func VerifSeedBackend(b *types.Backend) { aePutRaw(aeKey{backendKind, b.BackendID}, aeClone(b)) }
func VerifSeedLastSeen(backendID string, t time.Time) {
	aePutRaw(aeKey{backendTrackerKind, backendID}, &backendTracker{LastSeen: t})
}
func VerifHasEntity(kind, id string) bool { return aeFind(aeKey{kind, id}) >= 0 }
func VerifRequestKind(backendID string) string { return requestKind(backendID) }
