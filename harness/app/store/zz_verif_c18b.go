//go:build verif

package store

// Harness HSt-18b (C18): LookupBackend over the datastore model. Backends of
// the end user and backends shared with allUsers, each with one concrete-choice
// prefix set; the last-seen times of their agents are symbolic relative to now.
// Oracle from the statement: the user's most specific match wins; shared
// backends are only considered when the user has no match at all; the chosen
// backend must have been seen within the 5-minute window, otherwise the lookup
// fails (no fallback to a less specific or shared backend).

import (
	"context"
	"strings"
	"time"

	"github.com/google/inverting-proxy/app/types"
	rt "github.com/google/inverting-proxy/zzverifrt"
)

func c18Best(path string, bs []*types.Backend) int {
	best, bestLen := -1, -1
	for i, b := range bs {
		for _, p := range b.PathPrefixes {
			if strings.HasPrefix(path, p) && len(p) > bestLen {
				best, bestLen = i, len(p)
			}
		}
	}
	return best
}

func VerifC18Lookup() {
	VerifInstallAE()
	VerifAE.Faults = rt.Param("faults", 0) == 1
	now := time.Now()
	prefixSets := [][]string{{"/"}, {"/a/"}, {"/a/b/"}, {"/x/"}, {"/a/", "/x/"}}
	paths := []string{"/", "/a/", "/a/b/c", "/x/y", "/q"}
	path := paths[rt.Choice("path", len(paths))]
	user := "user@example.com"
	n := rt.Int("nbackends", 0, rt.Param("backends", 3))
	var own, shared []*types.Backend
	age := map[string]int{}
	seen := map[string]bool{}
	for i := 0; i < n; i++ {
		tag := "b" + rt.Itoa(i)
		b := &types.Backend{BackendID: tag, BackendUser: "agent@example.com", PathPrefixes: prefixSets[rt.Choice(tag+".prefixes", len(prefixSets))]}
		switch rt.Choice(tag+".owner", 3) {
		case 0:
			b.EndUser = user
			own = append(own, b)
		case 1:
			b.EndUser = sharedBackendUser
			shared = append(shared, b)
		default:
			b.EndUser = "someone-else@example.com"
		}
		VerifSeedBackend(b)
		if rt.Bool(tag + ".everSeen") {
			a := rt.Int(tag+".ageSeconds", 0, 600)
			age[tag] = a
			seen[tag] = true
			VerifSeedLastSeen(tag, time.Unix(now.Unix()-int64(a), 0))
		}
	}
	d := &persistentStore{}
	got, err := d.LookupBackend(context.Background(), user, path)
	rt.Observe("lookup", got, err != nil)

	// independent specification
	pool := own
	if c18Best(path, own) < 0 {
		pool = shared
		rt.Cover("C18.fallback-to-shared-considered")
	}
	bi := c18Best(path, pool)
	if VerifAE.faultSeq > 0 && err != nil {
		// with injected datastore errors the lookup may fail; it must never invent a backend
		return
	}
	if bi < 0 {
		rt.Cover("C18.no-match")
		rt.Assert(err != nil, "C18.no-match-is-not-found")
		return
	}
	// several backends may tie on the longest prefix: any of them is a correct choice
	bestLen := -1
	for _, p := range pool[bi].PathPrefixes {
		if strings.HasPrefix(path, p) && len(p) > bestLen {
			bestLen = len(p)
		}
	}
	if err != nil {
		// allowed only if every candidate of maximal specificity is not live
		for _, b := range pool {
			for _, p := range b.PathPrefixes {
				if strings.HasPrefix(path, p) && len(p) == bestLen {
					live := seen[b.BackendID] && age[b.BackendID] < 300
					rt.Assert(!live || c18Ties(path, pool, bestLen) > 1, "C18.live-most-specific-backend-is-found")
				}
			}
		}
		rt.Cover("C18.not-live-is-not-found")
		return
	}
	rt.Cover("C18.found")
	ok := false
	for _, b := range pool {
		if b.BackendID != got {
			continue
		}
		for _, p := range b.PathPrefixes {
			if strings.HasPrefix(path, p) && len(p) == bestLen {
				ok = true
			}
		}
		rt.Assert(seen[b.BackendID] && age[b.BackendID] < 300, "C18.chosen-backend-is-live")
	}
	rt.Assert(ok, "C18.chosen-backend-is-a-most-specific-match-of-the-right-pool")
}

func c18Ties(path string, pool []*types.Backend, bestLen int) int {
	n := 0
	for _, b := range pool {
		for _, p := range b.PathPrefixes {
			if strings.HasPrefix(path, p) && len(p) == bestLen {
				n++
				break
			}
		}
	}
	return n
}
