//go:build verif

// Package zzverifself holds engine self-tests: small programs whose assertions
// must hold; they exercise the interpreter and the environment models.
package zzverifself

import (
	"context"
	"encoding/json"
	"fmt"
	"net/http"
	"strings"
	"sync"
	"sync/atomic"
	"time"

	rt "github.com/google/inverting-proxy/zzverifrt"
)

type msg struct {
	ID      string      `json:"id,omitempty"`
	Message interface{} `json:"msg,omitempty"`
	Version int         `json:"v,omitempty"`
}

// SelfJSON: decode(encode(v)) == v with symbolic strings inside.
func SelfJSON() {
	s := rt.String("s", 3)
	m := msg{ID: s, Message: []interface{}{s + "x"}, Version: 1}
	data, err := json.Marshal(&m)
	rt.Assert(err == nil, "marshal ok")
	var back msg
	err = json.Unmarshal(data, &back)
	rt.Assert(err == nil, "unmarshal ok")
	rt.Assert(back.ID == s && back.Version == 1, "fields round trip")
	arr, ok := back.Message.([]interface{})
	rt.Assert(ok && len(arr) == 1, "array round trip")
	if ok && len(arr) == 1 {
		str, ok := arr[0].(string)
		rt.Assert(ok && str == s+"x", "nested string round trip")
	}
	var list []msg
	rt.Assert(json.Unmarshal([]byte(`[{"id":"7","msg":"hi"},{"id":"8","msg":["YQ=="],"v":2}]`), &list) == nil, "concrete parse")
	rt.Assert(len(list) == 2 && list[1].Version == 2 && list[0].ID == "7", "concrete parse values")
	rt.Assert(json.Unmarshal([]byte(`{"id":`), &back) != nil, "malformed rejected")
	var generic map[string]interface{}
	rt.Assert(json.Unmarshal([]byte(`{"a":{"b":1.5},"c":null}`), &generic) == nil, "generic parse")
	inner, _ := generic["a"].(map[string]interface{})
	f, _ := inner["b"].(float64)
	rt.Assert(f == 1.5, "number is float64")
	_, present := generic["c"]
	rt.Assert(present && generic["c"] == nil, "null kept in map")
	out, _ := json.Marshal([]string{"a", "b"})
	rt.Assert(string(out) == `["a","b"]`, "concrete text is real JSON")
	rt.Cover("json")
}

// SelfCtxTimers: cancellation, timers, select, virtual time.
func SelfCtxTimers() {
	ctx, cancel := context.WithCancel(context.Background())
	child, cancel2 := context.WithCancel(context.WithValue(ctx, "k", "v"))
	defer cancel2()
	rt.Assert(child.Value("k") == "v", "value through chain")
	select {
	case <-child.Done():
		rt.Unreachable("not cancelled yet")
	default:
	}
	start := time.Now()
	got := 0
	select {
	case <-child.Done():
		got = 1
	case <-time.After(20 * time.Second):
		got = 2
	}
	rt.Assert(got == 2, "timer fires when nothing else can run")
	rt.Assert(time.Since(start) == 20*time.Second, "virtual clock advanced by the timer")
	done := make(chan int)
	go func() {
		<-child.Done()
		done <- 1
	}()
	cancel()
	rt.Assert(<-done == 1, "child cancelled through parent")
	rt.Assert(child.Err() == context.Canceled && ctx.Err() == context.Canceled, "err set")
	tctx, tcancel := context.WithTimeout(context.Background(), time.Second)
	defer tcancel()
	<-tctx.Done()
	rt.Assert(tctx.Err() == context.DeadlineExceeded, "deadline exceeded")
	ts := time.Now().Format(time.RFC3339Nano)
	back, err := time.Parse(time.RFC3339Nano, ts)
	rt.Assert(err == nil && back.Equal(time.Now()), "format/parse round trip")
	rt.Cover("ctx")
}

// SelfSync: atomics, sync.Map, WaitGroup, mutex under all schedules.
func SelfSync() {
	var n uint64
	var m sync.Map
	var wg sync.WaitGroup
	var mu sync.Mutex
	total := 0
	for i := 0; i < 2; i++ {
		wg.Add(1)
		go func(i int) {
			defer wg.Done()
			id := atomic.AddUint64(&n, 1)
			m.Store(fmt.Sprintf("%d", id), i)
			mu.Lock()
			total += i + 1
			mu.Unlock()
		}(i)
	}
	wg.Wait()
	rt.Assert(atomic.LoadUint64(&n) == 2 && total == 3, "both ran")
	_, ok1 := m.Load("1")
	_, ok2 := m.Load("2")
	_, ok3 := m.Load("3")
	rt.Assert(ok1 && ok2 && !ok3, "sync.Map contents")
	m.Delete("1")
	_, ok1 = m.Load("1")
	rt.Assert(!ok1, "deleted")
	rt.Cover("sync")
}

// SelfMux: the ServeMux model and fmt on symbolic strings.
func SelfMux() {
	rt.InstallMuxModel()
	hit := ""
	mux := http.NewServeMux()
	mux.HandleFunc("/shim/open", func(w http.ResponseWriter, r *http.Request) { hit = "open" })
	mux.Handle("/shim/", http.HandlerFunc(func(w http.ResponseWriter, r *http.Request) { hit = "shim" }))
	mux.Handle("/", http.HandlerFunc(func(w http.ResponseWriter, r *http.Request) {
		hit = "root"
		http.Error(w, fmt.Sprintf("no %s here", r.URL.Path), 404)
	}))
	serve := func(p string) *rt.Recorder {
		w := rt.NewRecorder()
		r, err := http.NewRequest("GET", "http://h"+p, nil)
		rt.Debug("newrequest", err)
		mux.ServeHTTP(w, r)
		return w
	}
	serve("/shim/open")
	rt.Assert(hit == "open", "exact")
	serve("/shim/other")
	rt.Assert(hit == "shim", "subtree")
	w := serve("/x")
	rt.Assert(hit == "root" && w.Code == 404 && string(w.Body) == "no /x here\n", "root + http.Error")
	p := "/" + rt.String("p", 2)
	rt.Assume(!strings.Contains(p, "//") && !strings.Contains(p, ".") && !strings.Contains(p, "%") && !strings.Contains(p, "?") && !strings.Contains(p, "#"))
	hit = ""
	r := &http.Request{Method: "GET", URL: mustURL(p), Header: http.Header{}}
	w = rt.NewRecorder()
	mux.ServeHTTP(w, r)
	rt.Assert(hit == "root" && strings.HasSuffix(string(w.Body), "here\n"), "symbolic path goes to root")
	rt.Cover("mux")
}
