//go:build verif

package zzverifself

import (
	"context"
	"sync"
	"sync/atomic"

	rt "github.com/google/inverting-proxy/zzverifrt"
)

type box struct{ v int }

// SelfHBClean: every hand-off below is ordered by the Go memory model; the
// happens-before monitor must stay silent on every schedule.
func SelfHBClean() {
	// unbuffered channel, both arrival orders are explored by the scheduler
	c := make(chan *box)
	go func() { b := &box{}; b.v = 1; c <- b }()
	b := <-c
	rt.Assert(b.v == 1, "unbuffered")

	// buffered channel that overflows: the third send parks
	d := make(chan *box, 1)
	go func() {
		for i := 0; i < 3; i++ {
			x := &box{}
			x.v = i
			d <- x
		}
		close(d)
	}()
	sum := 0
	for x := range d {
		sum += x.v
	}
	rt.Assert(sum == 3, "buffered overflow")

	// select on both sides
	s1, s2 := make(chan *box), make(chan struct{})
	go func() {
		x := &box{v: 7}
		select {
		case s1 <- x:
		case <-s2:
		}
	}()
	select {
	case x := <-s1:
		rt.Assert(x.v == 7, "select hand-off")
	}

	// close as a broadcast
	shared := &box{}
	done := make(chan struct{})
	go func() { shared.v = 5; close(done) }()
	<-done
	rt.Assert(shared.v == 5, "close -> receive")

	// mutex, wait group, once, atomic, context
	var mu sync.Mutex
	var wg sync.WaitGroup
	var once sync.Once
	var flag int32
	cnt := &box{}
	init := &box{}
	ctx, cancel := context.WithCancel(context.Background())
	pub := &box{}
	for i := 0; i < 2; i++ {
		wg.Add(1)
		go func() {
			defer wg.Done()
			once.Do(func() { init.v = 9 })
			rt.Assert(init.v == 9, "once")
			mu.Lock()
			cnt.v++
			mu.Unlock()
			if atomic.LoadInt32(&flag) == 1 {
				rt.Assert(pub.v == 3, "atomic publish")
			}
			<-ctx.Done()
		}()
	}
	pub.v = 3
	atomic.StoreInt32(&flag, 1)
	cancel()
	wg.Wait()
	rt.Assert(cnt.v == 2, "mutex + waitgroup")

	// context.AfterFunc: f runs (in its own goroutine) after the cancellation it
	// was registered for; a stopped registration never runs
	actx, acancel := context.WithCancel(context.Background())
	after := &box{}
	ran := make(chan struct{})
	context.AfterFunc(actx, func() { after.v++; close(ran) })
	never := &box{}
	stop := context.AfterFunc(actx, func() { never.v = 1 })
	rt.Assert(stop(), "AfterFunc stop before cancel reports true")
	after.v = 10
	acancel()
	<-ran
	rt.Assert(after.v == 11 && never.v == 0, "AfterFunc after cancel")
	rt.Assert(!stop(), "AfterFunc second stop reports false")
	rt.Cover("hb-clean")
}

// SelfHBRacy has a real data race (unsynchronised write / read): the monitor
// must report it.
func SelfHBRacy() {
	shared := &box{}
	done := make(chan struct{})
	go func() { shared.v = 1; done <- struct{}{} }()
	x := shared.v // races with the write above
	<-done
	rt.Cover("hb-racy")
	_ = x
}
