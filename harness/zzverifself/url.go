//go:build verif

package zzverifself

import "net/url"

func mustURL(p string) *url.URL { return &url.URL{Path: p} }
