//go:build verif

package connection

// Harnesses HT-15b / HT-16 (C15, C16): the real connection.Handler (routing
// decision, upgrade, backend dial, two copy loops) between a websocket client
// (peer end of the M-ws pair created by the upgrade model) and a TCP backend (an
// in-memory duplex connection handed out by the net.Dial stub).

import (
	"bytes"
	"encoding/hex"
	"errors"
	"io"
	"net"
	"net/http"
	"net/url"
	"sync"
	"time"

	rt "github.com/google/inverting-proxy/zzverifrt"
	"github.com/gorilla/websocket"
)

// memConn is one end of an in-memory duplex byte stream (model of a TCP
// connection: ordered bytes, EOF after the peer closed, errors after a local
// close).
type memConn struct {
	mu     sync.Mutex
	in     []byte
	notify chan struct{}
	closed bool
	halfClosed bool
	peer   *memConn
}

func newMemPair() (*memConn, *memConn) {
	a := &memConn{notify: make(chan struct{}, 1)}
	b := &memConn{notify: make(chan struct{}, 1)}
	a.peer, b.peer = b, a
	return a, b
}

func (c *memConn) wake() {
	select {
	case c.notify <- struct{}{}:
	default:
	}
}

func (c *memConn) Read(p []byte) (int, error) {
	for {
		c.mu.Lock()
		if c.closed {
			c.mu.Unlock()
			return 0, errors.New("use of closed network connection")
		}
		if len(c.in) > 0 {
			n := copy(p, c.in)
			c.in = c.in[n:]
			c.mu.Unlock()
			return n, nil
		}
		c.peer.mu.Lock()
		peerClosed := c.peer.closed || c.peer.halfClosed
		c.peer.mu.Unlock()
		c.mu.Unlock()
		if peerClosed {
			return 0, io.EOF
		}
		<-c.notify
	}
}

func (c *memConn) Write(p []byte) (int, error) {
	c.mu.Lock()
	closed := c.closed
	c.mu.Unlock()
	if closed {
		return 0, errors.New("use of closed network connection")
	}
	c.peer.mu.Lock()
	if c.peer.closed {
		c.peer.mu.Unlock()
		return 0, errors.New("broken pipe")
	}
	c.peer.in = append(c.peer.in, p...)
	c.peer.mu.Unlock()
	c.peer.wake()
	return len(p), nil
}

func (c *memConn) Close() error {
	c.mu.Lock()
	c.closed = true
	c.mu.Unlock()
	c.wake()
	c.peer.wake()
	return nil
}

// CloseWrite is a TCP half-close: the peer reads EOF after draining, traffic in
// the other direction continues.
func (c *memConn) CloseWrite() {
	c.mu.Lock()
	c.halfClosed = true
	c.mu.Unlock()
	c.peer.wake()
}

func (c *memConn) isClosed() bool {
	c.mu.Lock()
	defer c.mu.Unlock()
	return c.closed
}

func (c *memConn) LocalAddr() net.Addr                { return nil }
func (c *memConn) RemoteAddr() net.Addr               { return nil }
func (c *memConn) SetDeadline(t time.Time) error      { return nil }
func (c *memConn) SetReadDeadline(t time.Time) error  { return nil }
func (c *memConn) SetWriteDeadline(t time.Time) error { return nil }

type bridgeEnv struct {
	dialed   []*memConn // agent-side ends handed to the code under test
	backends []*memConn // the backend server's ends
	dialFail bool
}

func (b *bridgeEnv) install() {
	rt.Stub("net.Dial", func(network, addr string) (net.Conn, error) {
		if b.dialFail {
			return nil, errors.New("connection refused")
		}
		x, y := newMemPair()
		b.dialed = append(b.dialed, x)
		b.backends = append(b.backends, y)
		return x, nil
	})
}

func upgradeRequest(path string) *http.Request {
	h := http.Header{}
	h.Set("Connection", "Upgrade")
	h.Set("Upgrade", "websocket")
	h.Set("Sec-Websocket-Version", "13")
	h.Set("Sec-Websocket-Key", "dGhlIHNhbXBsZSBub25jZQ==")
	return &http.Request{Method: "GET", URL: &url.URL{Path: path}, Header: h, Host: "bridge.example.com", Proto: "HTTP/1.1", ProtoMajor: 1, ProtoMinor: 1}
}

// readAvailable drains what the backend has received so far (non-blocking).
func (c *memConn) takeAll() []byte {
	c.mu.Lock()
	defer c.mu.Unlock()
	out := c.in
	c.in = nil
	return out
}

// VerifC16Bridge (HT-16 + HT-15b): one bridged connection, a symbolic sequence of
// events (client sends, server sends, client closes, server closes), then
// quiescence.
func VerifC16Bridge() {
	env := &bridgeEnv{}
	env.install()
	passthrough := http.HandlerFunc(func(w http.ResponseWriter, r *http.Request) { rt.Unreachable("C15.bridge-request-not-passed-through") })
	h := Handler(9000, passthrough)
	returned := make(chan int, 1)
	w := rt.NewRecorder()
	go func() {
		h.ServeHTTP(w, upgradeRequest(StreamingPath))
		returned <- 1
	}()
	rt.Quiesce() // the handler upgrades, dials and starts its copy loops
	rt.Assert(rt.WSUpgrades() == 1 && len(env.backends) == 1, "C15.bridge-request-is-upgraded-and-dialled")
	if rt.WSUpgrades() != 1 || len(env.backends) != 1 {
		return
	}
	client := rt.WSUpgradePeer(0).(*websocket.Conn)
	server := env.backends[0]

	var toServer, toClient []byte // what each peer sent before closing
	clientClosed, serverClosed := false, false
	n := rt.Param("events", 3)
	for i := 0; i < n; i++ {
		tag := "ev" + rt.Itoa(i)
		switch rt.Choice(tag, 4) {
		case 0:
			if !clientClosed {
				chunk := rt.Bytes(tag+".bytes", rt.Param("chunkCap", 2))
				if client.WriteMessage(websocket.TextMessage, []byte(hex.EncodeToString(chunk))) == nil {
					toServer = append(toServer, chunk...)
				}
			}
		case 1:
			if !serverClosed {
				chunk := rt.Bytes(tag+".bytes", rt.Param("chunkCap", 2))
				if _, err := server.Write(chunk); err == nil {
					toClient = append(toClient, chunk...)
				}
			}
		case 2:
			if !clientClosed {
				client.Close()
				clientClosed = true
			}
		case 3:
			if !serverClosed {
				server.Close()
				serverClosed = true
			}
		}
	}
	rt.Quiesce()
	rt.Known("C16-no-propagation", clientClosed != serverClosed)

	// C15: whatever was sent before a close arrives complete, in order, unmodified
	gotServer := server.takeAll()
	if !serverClosed {
		rt.Assert(bytes.Equal(gotServer, toServer), "C15.client-bytes-reach-the-server-intact")
	}
	var gotClient []byte
	if !clientClosed {
		for {
			if len(gotClient) >= len(toClient) {
				break
			}
			typ, msg, err := client.ReadMessage()
			if err != nil {
				break
			}
			rt.Assert(typ == websocket.TextMessage, "C15.bridge-frames-are-text")
			raw, derr := hex.DecodeString(string(msg))
			rt.Assert(derr == nil, "C15.bridge-frames-are-hex")
			gotClient = append(gotClient, raw...)
		}
		rt.Assert(bytes.Equal(gotClient, toClient), "C15.server-bytes-reach-the-client-intact")
	}
	if len(toServer) > 0 && len(toClient) > 0 {
		rt.Cover("C15.both-directions-carried-data")
	}

	// C16 (skipped when the harness runs for C15 only)
	if rt.Param("checkClose", 1) == 0 {
		return
	}
	if clientClosed && serverClosed {
		rt.Cover("C16.both-closed")
		rt.Assert(len(returned) == 1, "C16.no-bridged-connection-outlives-both-endpoints")
		rt.Assert(env.dialed[0].isClosed() && rt.WSUpgradeClosed(0), "C16.bridge-releases-its-connections")
	}
	if clientClosed != serverClosed {
		rt.Cover("C16.one-side-closed")
		if clientClosed {
			rt.Assert(env.dialed[0].isClosed(), "C16.client-close-is-propagated-to-the-server")
		} else {
			rt.Assert(rt.WSUpgradeClosed(0), "C16.server-close-is-propagated-to-the-client")
		}
	}
}

// VerifC16Setup: failing handshakes and failing dials leave nothing open; requests
// that are not bridge requests are passed through untouched.
func VerifC16Setup() {
	env := &bridgeEnv{}
	env.install()
	var seen *http.Request
	passthrough := http.HandlerFunc(func(w http.ResponseWriter, r *http.Request) { seen = r; w.WriteHeader(204) })
	h := Handler(9000, passthrough)
	kind := rt.Choice("kind", 5)
	var r *http.Request
	switch kind {
	case 0: // not an upgrade
		r = &http.Request{Method: "GET", URL: &url.URL{Path: StreamingPath}, Header: http.Header{}, Host: "x"}
	case 1: // an upgrade for another path
		r = upgradeRequest("/" + rt.String("otherPath", 3))
		rt.Assume(r.URL.Path != StreamingPath)
	case 2: // refused handshake
		r = upgradeRequest(StreamingPath)
		rt.WSUpgradeFail(true)
	case 3: // backend unreachable
		r = upgradeRequest(StreamingPath)
		env.dialFail = true
	default: // bridged, both ends close at once
		r = upgradeRequest(StreamingPath)
	}
	w := rt.NewRecorder()
	done := make(chan int, 1)
	go func() {
		h.ServeHTTP(w, r)
		done <- 1
	}()
	rt.Quiesce()
	switch kind {
	case 0, 1:
		rt.Cover("C15.passthrough")
		rt.Assert(seen == r && len(done) == 1 && w.Code == 204, "C15.non-bridge-request-is-passed-through-unchanged")
		rt.Assert(rt.WSUpgrades() == 0 && len(env.dialed) == 0, "C15.passthrough-opens-nothing")
	case 2:
		rt.Cover("C16.handshake-refused")
		rt.Assert(len(done) == 1 && w.Code == 500, "C16.refused-handshake-is-answered")
		for _, c := range env.dialed {
			rt.Assert(c.isClosed(), "C16.refused-handshake-leaves-no-backend-connection-open")
		}
	case 3:
		rt.Cover("C16.dial-failed")
		rt.Assert(len(done) == 1, "C16.failed-dial-returns")
		rt.Assert(rt.WSUpgrades() == 0 || rt.WSUpgradeClosed(0), "C16.failed-dial-closes-the-websocket")
	default:
		rt.Assert(len(done) == 0, "C16.bridge-stays-up-while-both-ends-are-open")
	}
}

// Exported handles for the frontend harness (package main of tcp-bridge-frontend).
type VerifMemConn = memConn

func VerifNewMemPair() (*VerifMemConn, *VerifMemConn) { return newMemPair() }
func (c *memConn) VerifTakeAll() []byte                { return c.takeAll() }
func (c *memConn) VerifIsClosed() bool                 { return c.isClosed() }
