//go:build verif

package connection

// Harness HT-15a (C15): the byte stream through WebsocketNetConn.Write on one
// side and WebsocketNetConn.Read on the other, any segmentation. The two ends
// are two websocket.Conn objects connected by the engine's message-queue model
// M-ws.

import (
	"bytes"

	rt "github.com/google/inverting-proxy/zzverifrt"
	"github.com/gorilla/websocket"
)

func VerifC15Stream() {
	a := &WebsocketNetConn{Conn: new(websocket.Conn)}
	b := &WebsocketNetConn{Conn: new(websocket.Conn)}
	rt.Link(a.Conn, b.Conn) // M-ws: what is written on a is read on b

	var sent []byte
	nw := rt.Int("nwrites", 0, rt.Param("writes", 2))
	wcap := rt.Param("writeCap", 2)
	for i := 0; i < nw; i++ {
		if rt.Param("foreign", 0) == 1 && rt.Bool("foreign"+rt.Itoa(i)) {
			// a non-text message on the connection is skipped by the reader
			a.Conn.WriteMessage(websocket.BinaryMessage, []byte{1})
		}
		chunk := rt.Bytes("w"+rt.Itoa(i), wcap)
		n, err := a.Write(chunk)
		rt.Assert(err == nil && n == len(chunk), "C15.write-reports-all-bytes")
		sent = append(sent, chunk...)
	}
	rt.CloseWrite(a.Conn) // no more messages: the next ReadMessage on b fails

	var got []byte
	nr := rt.Param("reads", 5)
	sawEnd := false
	for i := 0; i < nr; i++ {
		buf := make([]byte, rt.Int("r"+rt.Itoa(i), 0, rt.Param("readCap", 3)))
		n, err := b.Read(buf)
		if err != nil {
			rt.Cover("C15.reader-saw-end")
			sawEnd = true
			break
		}
		rt.Assert(n <= len(buf), "C15.read-count-within-buffer")
		got = append(got, buf[:n]...)
	}
	rt.Assert(bytes.HasPrefix(sent, got), "C15.read-bytes-are-a-prefix-of-written-bytes")
	if sawEnd {
		rt.Assert(len(got) == len(sent), "C15.end-of-stream-only-after-all-bytes")
	}
	if len(got) == len(sent) && len(sent) > 0 {
		rt.Cover("C15.everything-delivered")
	}
	rt.Observe("delivered", got)
}

// VerifC15Large (HT-15d): one write larger than the buffers involved (the
// websocket buffer, io.Copy's 32 KiB chunk) followed by a small one, read back
// through io.Copy-sized buffers. The content is a concrete pattern with three
// symbolic bytes (first, middle, last of the large write).
func VerifC15Large() {
	a := &WebsocketNetConn{Conn: new(websocket.Conn)}
	b := &WebsocketNetConn{Conn: new(websocket.Conn)}
	rt.Link(a.Conn, b.Conn)

	sizes := []int{4097, 32768, 32769, 65537}
	size := sizes[rt.Choice("size", rt.Param("sizes", 4))]
	big := make([]byte, size)
	for i := range big {
		big[i] = byte(i*7 + 3)
	}
	big[0], big[size/2], big[size-1] = rt.Byte("first"), rt.Byte("middle"), rt.Byte("last")
	n, err := a.Write(big)
	rt.Assert(err == nil && n == size, "C15.write-reports-all-bytes")
	tail := rt.Bytes("tail", 1)
	n, err = a.Write(tail)
	rt.Assert(err == nil && n == len(tail), "C15.write-reports-all-bytes")
	rt.CloseWrite(a.Conn)

	sent := append(append([]byte{}, big...), tail...)
	var got []byte
	buf := make([]byte, []int{32 * 1024, 1000, 100000}[rt.Choice("readBuffer", 3)])
	for i := 0; i < 80; i++ {
		n, err := b.Read(buf)
		if err != nil {
			rt.Cover("C15.large-write-reader-saw-end")
			break
		}
		rt.Assert(n <= len(buf), "C15.read-count-within-buffer")
		got = append(got, buf[:n]...)
	}
	rt.Assert(bytes.Equal(sent, got), "C15.large-write-arrives-complete-and-unmodified")
}
