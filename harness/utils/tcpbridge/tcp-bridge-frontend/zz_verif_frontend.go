//go:build verif

package main

// Harness HT-15c (C15 / C16): the real main() of the bridge frontend (accept
// loop and per-connection closure with its two copy loops) between an in-memory
// TCP client and the websocket it dials (M-ws). The client sends a request, may
// half-close its sending side, and the server answers afterwards.

import (
	"bytes"
	"encoding/hex"
	"errors"
	"net"

	"github.com/google/inverting-proxy/utils/tcpbridge/connection"
	rt "github.com/google/inverting-proxy/zzverifrt"
	"github.com/gorilla/websocket"
)

type vListener struct {
	conns chan net.Conn
}

func (l *vListener) Accept() (net.Conn, error) {
	c, ok := <-l.conns
	if !ok {
		return nil, errors.New("listener closed")
	}
	return c, nil
}
func (l *vListener) Close() error   { return nil }
func (l *vListener) Addr() net.Addr { return nil }

func VerifC15Frontend() {
	*backend = "ws://bridge-backend.example.com"
	l := &vListener{conns: make(chan net.Conn, 2)}
	rt.Stub("net.Listen", func(network, addr string) (net.Listener, error) { return l, nil })
	go func() {
		rt.Daemon()
		main()
	}()
	client, accepted := connection.VerifNewMemPair()
	l.conns <- accepted
	rt.Quiesce()
	rt.Assert(rt.WSDials() == 1, "C15.frontend-dials-the-backend-bridge")
	if rt.WSDials() != 1 {
		return
	}
	server := rt.WSDialPeer(0).(*websocket.Conn)

	request := rt.Bytes("request", rt.Param("chunkCap", 2))
	client.Write(request)
	halfClose := rt.Bool("clientHalfCloses")
	if halfClose {
		client.CloseWrite()
	}
	rt.Quiesce()
	// the server has the request
	var got []byte
	for len(got) < len(request) {
		_, msg, err := server.ReadMessage()
		if err != nil {
			break
		}
		raw, _ := hex.DecodeString(string(msg))
		got = append(got, raw...)
	}
	rt.Assert(bytes.Equal(got, request), "C15.client-bytes-reach-the-server-intact")
	// and answers afterwards
	reply := rt.Bytes("reply", rt.Param("chunkCap", 2))
	werr := server.WriteMessage(websocket.TextMessage, []byte(hex.EncodeToString(reply)))
	rt.Quiesce()
	back := client.VerifTakeAll()
	if halfClose {
		rt.Cover("C15.reply-after-half-close")
	}
	rt.Assert(werr == nil && bytes.Equal(back, reply), "C15.server-bytes-reach-the-client-intact-also-after-a-client-half-close")
}
