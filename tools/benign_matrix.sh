#!/bin/bash
# Runs, for each behaviour-preserving change in benign/*.diff, the quick tier of
# every property whose anchor files the change touches (tools/try_patch.sh), and
# writes benign/MATRIX.tsv. Expected: exit 0 everywhere (no alarm on code where
# the property holds). Optional argument: regex selecting patches.
cd /verif
for p in benign/g*.diff; do
  n=$(basename $p .diff)
  [ -n "$1" ] && [ "$1" != "--rebuild" ] && [[ ! "$n" =~ $1 ]] && continue
  [ "$1" = "--rebuild" ] && continue
  ids=$(python3 tools/props_for_patch.py $p)
  for id in $ids; do
    t0=$(date +%s)
    tools/try_patch.sh $p $id quick > .work_benign_${n}_$id.log 2>&1
    echo "wall_s=$(( $(date +%s)-t0 ))" >> .work_benign_${n}_$id.log
    echo "$n $id $(grep -o '^exit=[0-9]*' .work_benign_${n}_$id.log) $(grep -c 'INCOMPLETE' .work_benign_${n}_$id.log) incomplete"
  done
done
out=benign/MATRIX.tsv
echo -e "patch\tproperty\texit\twall_s\tincomplete_runs\tnotes" > $out
for l in .work_benign_*.log; do
  b=${l#.work_benign_}; b=${b%.log}; n=${b%_*}; id=${b##*_}
  rc=$(grep -o '^exit=[0-9]*' $l | cut -d= -f2)
  w=$(grep -o '^wall_s=[0-9]*' $l | cut -d= -f2)
  inc=$(grep -o '^INCOMPLETE run=[A-Za-z0-9-]*' $l | sed 's/INCOMPLETE run=//' | paste -sd,)
  note=$(grep -m1 '^INCOMPLETE\|^VIOLATION\|^  run=' $l | cut -c1-160)
  echo -e "$n\t$id\t$rc\t$w\t$inc\t$note" >> $out
done
