#!/usr/bin/env python3
"""Fills seeded/*/meta.json: needs_to_manifest (from the seed's notes.md) and detection (from seeded/MATRIX.tsv)."""
import json, os, re, csv, glob
root = os.path.join(os.path.dirname(os.path.abspath(__file__)), '..', 'seeded')
matrix = {}
mp = os.path.join(root, 'MATRIX.tsv')
if os.path.exists(mp):
    for row in csv.DictReader(open(mp), delimiter='\t'):
        matrix[row['seed']] = row
for d in sorted(glob.glob(os.path.join(root, 'C*'))):
    sid = os.path.basename(d)
    mpath = os.path.join(d, 'meta.json')
    meta = json.load(open(mpath))
    notes = open(os.path.join(d, 'notes.md')).read()
    m = re.search(r'^## What is needed (?:for it )?to manifest\s*\n(.*?)(?=^## |\Z)', notes, re.S | re.M)
    if m:
        txt = re.sub(r'\s+', ' ', m.group(1)).strip()
        if len(txt) > 900:
            txt = txt[:900].rsplit(' ', 1)[0] + ' …'
        meta['needs_to_manifest'] = txt
    if sid in matrix:
        r = matrix[sid]
        meta['detection'] = {
            'check': r['property'], 'tier': 'quick', 'exit': int(r['exit'] or -1),
            'detected': r['exit'] == '1', 'runs_with_findings': [x for x in r['runs_with_findings'].split(',') if x],
            'first_finding': r['first_finding'], 'wall_s': int(r['wall_s']),
            'command': 'tools/try_patch.sh seeded/%s/patch.diff %s quick' % (sid, r['property']),
        }
    json.dump(meta, open(mpath, 'w'), indent=1)
    print(sid, 'ok', len(meta.get('needs_to_manifest', '')))
