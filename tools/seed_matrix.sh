#!/bin/bash
# Runs the quick tier of each seeded change's own property check on the patched
# tree (tools/try_patch.sh) and writes seeded/MATRIX.tsv. Evidence files are
# overwritten by these runs: re-run the checks on the clean tree afterwards.
cd /verif
out=seeded/MATRIX.tsv
echo -e "seed\tproperty\texit\twall_s\truns_with_findings\tfirst_finding" > $out
for d in seeded/C*/; do
  s=$(basename $d); id=${s:0:3}
  [ -n "$1" ] && [[ ! "$s" =~ $1 ]] && continue
  t0=$(date +%s)
  tools/try_patch.sh $d/patch.diff $id quick > .work_seed_$s.log 2>&1
  t1=$(date +%s)
  rc=$(grep -o '^exit=[0-9]*' .work_seed_$s.log | cut -d= -f2)
  runs=$(grep -o '^  run=[A-Za-z0-9-]* ' .work_seed_$s.log | sort -u | sed 's/  run=//' | tr -d ' ' | paste -sd,)
  first=$(grep -m1 '^  run=' .work_seed_$s.log | sed 's/^  run=[^ ]* //' | cut -c1-110)
  echo -e "$s\t$id\t$rc\t$((t1-t0))\t$runs\t$first" | tee -a $out
done
