#!/bin/bash
# Runs the quick tier of each seeded change's own property check on the patched
# tree (tools/try_patch.sh); optional argument: regex selecting seeds. Logs go to
# .work_seed_<id>.log; seeded/MATRIX.tsv is rebuilt from all logs present.
# Evidence files are overwritten by these runs: re-run the checks on the clean
# tree afterwards.
cd /verif
for d in seeded/C*/; do
  s=$(basename $d); id=${s:0:3}
  [ -n "$1" ] && [[ ! "$s" =~ $1 ]] && continue
  [ "$1" = "--rebuild" ] && continue
  t0=$(date +%s)
  tools/try_patch.sh $d/patch.diff $id quick > .work_seed_$s.log 2>&1
  echo "wall_s=$(( $(date +%s)-t0 ))" >> .work_seed_$s.log
  tail -2 .work_seed_$s.log | tr '\n' ' '; echo $s
done
out=seeded/MATRIX.tsv
echo -e "seed\tproperty\texit\twall_s\truns_with_findings\tfirst_finding" > $out
for d in seeded/C*/; do
  s=$(basename $d); id=${s:0:3}; l=.work_seed_$s.log
  [ -f $l ] || continue
  rc=$(grep -o '^exit=[0-9]*' $l | cut -d= -f2)
  w=$(grep -o '^wall_s=[0-9]*' $l | cut -d= -f2)
  runs=$(grep -o '^  run=[A-Za-z0-9-]* ' $l | sort -u | sed 's/  run=//' | tr -d ' ' | paste -sd,)
  first=$(grep -m1 '^  run=' $l | sed 's/^  run=[^ ]* //' | sed 's/  (.*//' | cut -c1-160)
  echo -e "$s\t$id\t$rc\t$w\t$runs\t$first" >> $out
done
