#!/usr/bin/env python3
"""Prints the ids of the properties whose anchor files (or harnessed packages) a patch touches."""
import json, re, sys, os
root = os.path.join(os.path.dirname(os.path.abspath(__file__)), '..')
files = set(re.findall(r'^\+\+\+ b/(\S+)', open(sys.argv[1]).read(), re.M))
dirs = {os.path.dirname(f) for f in files}
ids = []
for l in open(os.path.join(root, 'properties.jsonl')):
    p = json.loads(l)
    anchors = set(p['anchors']['files'])
    spec = json.load(open(os.path.join(root, 'checks', p['id'] + '.json')))
    pkgs = {r['pkg'].lstrip('./') for r in spec['runs']}
    if files & anchors or dirs & pkgs:
        ids.append(p['id'])
print(' '.join(ids))
