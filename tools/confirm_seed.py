#!/usr/bin/env python3
"""Confirms a seeded change produced by a sub-agent, in a scratch worktree:
 - the demonstration passes on the pristine tree,
 - the patch applies, the project builds, the existing tests still pass,
 - the demonstration fails with the patch.
On success copies patch.diff, demo_test.go, notes.md to /verif/seeded/<id>/ and writes meta.json."""
import json, os, re, subprocess, sys, shutil, time
ENV = dict(os.environ, GOFLAGS="-mod=mod", GOPROXY="off", GOSUMDB="off", GOTOOLCHAIN="local")
WT = "/tmp/wt/confirm"
PKGS = "./server/... ./agent/banner/... ./agent/metrics/... ./agent/sessions/... ./agent/utils/... ./agent/websockets/... ./utils/... ./app/..."
def sh(cmd, cwd=WT, timeout=1500):
    p = subprocess.run(cmd, shell=True, cwd=cwd, env=ENV, stdout=subprocess.PIPE, stderr=subprocess.STDOUT, timeout=timeout, text=True)
    return p.returncode, p.stdout
def main(sid):
    src = "/tmp/wt/out/" + sid
    prop = sid[:3]
    if not os.path.isdir(WT):
        rc, out = sh("git -C /repo worktree add --detach %s %s" % (WT, open('/root/.vp/repo_root_sha').read().strip() if False else "HEAD~0"), cwd="/repo")
    base = subprocess.run("git -C /repo rev-list --max-parents=0 HEAD | tail -1", shell=True, stdout=subprocess.PIPE, text=True).stdout.strip()
    pinned = os.environ.get("PINNED", "e4a1462")
    sh("git checkout -q --detach %s && git checkout -- . && git clean -fdq" % pinned)
    head = "".join(open(src + "/demo_test.go").readlines()[:4])
    m = re.search(r"\s\./([A-Za-z0-9_/.-]+?)/?(?:\s|$)", head)
    r = re.search(r"-run\s+'?([^'\s]+)'?", head)
    if not m or not r:
        print("cannot parse demo header", head); return 2
    d, run = m.group(1).rstrip("/"), r.group(1)
    meta = {"id": sid, "property": prop, "demo_dir": d, "demo_run": run, "confirmed_at": time.strftime("%Y-%m-%dT%H:%M:%SZ", time.gmtime()), "pinned_commit": pinned}
    demo_dst = os.path.join(WT, d, "zz_demo_test.go")
    demo_cmd = "go test -vet=off -count=1 -timeout 5m -run '%s' ./%s/" % (run, d)
    shutil.copy(src + "/demo_test.go", demo_dst)
    rc, out = sh(demo_cmd); meta["demo_on_pristine"] = "pass" if rc == 0 else "FAIL"
    if rc != 0: print(out[-2000:])
    os.remove(demo_dst)
    rc, out = sh("git apply %s/patch.diff" % src); meta["patch_applies"] = rc == 0
    if rc != 0: print(out)
    touched = subprocess.run("git diff --name-only", shell=True, cwd=WT, stdout=subprocess.PIPE, text=True).stdout.split()
    meta["files_touched"] = touched
    meta["touches_tests"] = any(f.endswith("_test.go") for f in touched)
    rc, out = sh("go build ./... && go test -vet=off -count=1 -run '^$' ./..."); meta["builds"] = rc == 0
    rc, out = sh("go test -vet=off -count=1 -timeout 20m " + PKGS)
    meta["existing_tests"] = "pass" if rc == 0 else "FAIL"
    if rc != 0: print(out[-3000:])
    shutil.copy(src + "/demo_test.go", demo_dst)
    rc, out = sh(demo_cmd); meta["demo_with_patch"] = "fail" if rc != 0 else "PASS(!)"
    meta["demo_failure_excerpt"] = "\n".join([l for l in out.splitlines() if "FAIL" in l or "demo" in l.lower() or "Error" in l][:8])
    os.remove(demo_dst)
    sh("git checkout -- . && git clean -fdq")
    ok = meta["demo_on_pristine"] == "pass" and meta["patch_applies"] and meta["builds"] and meta["existing_tests"] == "pass" and meta["demo_with_patch"] == "fail" and not meta["touches_tests"]
    meta["confirmed"] = ok
    meta["ran"] = ["demo on pristine: " + demo_cmd, "git apply patch.diff; go build ./...; go test -vet=off -count=1 " + PKGS, "demo with patch: " + demo_cmd]
    print(json.dumps(meta, indent=1))
    if ok:
        dst = "/verif/seeded/" + sid
        os.makedirs(dst, exist_ok=True)
        for f in ("patch.diff", "demo_test.go", "notes.md"):
            if os.path.exists(src + "/" + f): shutil.copy(src + "/" + f, dst + "/" + f)
        notes = open(src + "/notes.md").read() if os.path.exists(src + "/notes.md") else ""
        meta["needs_to_manifest"] = ""
        json.dump(meta, open(dst + "/meta.json", "w"), indent=1)
    return 0 if ok else 1
if __name__ == "__main__":
    rcs = [main(s) for s in sys.argv[1:]]
    sys.exit(max(rcs))
