#!/usr/bin/env python3
"""Regenerates /verif/MANIFEST.json from checks/*.json (claimed properties) and
not_applicable.json (reasons for the properties not claimed)."""
import json, glob, os
V = os.path.dirname(os.path.dirname(os.path.abspath(__file__)))
props = [json.loads(l) for l in open(V + "/properties.jsonl")]
na = json.load(open(V + "/not_applicable.json")) if os.path.exists(V + "/not_applicable.json") else {}
checks = []
claimed = set()
for f in sorted(glob.glob(V + "/checks/C*.json")):
    c = json.load(open(f))
    pid = c["property"]
    claimed.add(pid)
    has_thorough = any("thorough" in r.get("tiers", {}) for r in c["runs"])
    e = {
        "property_id": pid,
        "quick_cmd": "./check.sh %s quick" % pid,
        "evidence_file": "/verif/evidence/%s.json" % pid,
        "replay_cmd_template": "./bin/vcheck replay {path}",
        "engine": "gosym",
        "level_claimed": {"category": c.get("level", "model_checking"), "text": c.get("level_text", ""), "design_ref": c.get("design_ref", "DESIGN.md section 6, " + pid)},
        "level_note": c.get("level_note", ""),
        "technique": c.get("technique", "bounded symbolic execution of the go/ssa form of the real code; SMT (z3/cvc5) decides every assertion"),
    }
    if has_thorough:
        e["thorough_cmd"] = "./check.sh %s thorough" % pid
    checks.append(e)
m = {
    "version": 1,
    "setup_cmd": "./setup.sh",
    "hooks": {"guard": "verif",
              "enable": "no source hooks: harnesses (//go:build verif) and the zzverifrt intrinsics package enter through a build overlay (go/packages Overlay for the engine, go test -overlay -tags verif for native replays); nothing is written under /repo",
              "baseline_off_cmd": "cd /repo && GOFLAGS=-mod=mod GOPROXY=off GOSUMDB=off go test -vet=off -count=1 -timeout 25m ./...",
              "source_commits": [], "add_only": True},
    "engines": [{"name": "gosym", "path": "/verif/engine", "serves_properties": sorted(claimed),
                 "kind_free_text": "forking symbolic interpreter for go/ssa (x/tools v0.29.0) with a bit-vector / floating-point SMT back end (z3 5.1 primary, cvc5 for FP), bounded symbolic scheduler and happens-before monitor; written for this task"}],
    "checks": checks,
    "not_applicable": [{"property_id": p["id"], "reason": na.get(p["id"], "check not built yet (work in progress; see DESIGN.md section 6)")} for p in props if p["id"] not in claimed],
    "notes": "Every check regenerates the SSA encoding from /repo's current working tree. Exit 0 = held within the stated bounds (KNOWN-FINDING lines possible), 1 = VIOLATION (replayed), 2 = machinery problem (never a verdict).",
}
json.dump(m, open(V + "/MANIFEST.json", "w"), indent=1)
print("claimed:", sorted(claimed))
