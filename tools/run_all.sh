#!/bin/bash
# Runs every registered check (tier $1, default quick) on the current tree and prints a timing table.
TIER=${1:-quick}
cd /verif
for f in checks/C*.json; do
  id=$(basename $f .json)
  s=$(date +%s)
  ./check.sh $id $TIER > .work_$id.log 2>&1
  rc=$?
  e=$(date +%s)
  echo "$id exit=$rc wall=$((e-s))s $(grep -c '^KNOWN-FINDING' .work_$id.log) known $(grep -c 'INCOMPLETE\|VACUOUS\|WITNESS-MISMATCH\|UNCONFIRMED' .work_$id.log) warnings"
done
