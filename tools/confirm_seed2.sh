#!/bin/bash
# usage: confirm_seed2.sh <seed id, e.g. C04c> <worktree> <demo file relative to the worktree>
# Confirms a sub-agent's seeded change inside its own scratch worktree (the
# patch is <worktree>/patch.diff): the demonstration passes without the patch,
# the patched tree builds and passes the existing tests, the demonstration fails
# with the patch. On success copies patch.diff, the demonstration and NOTES.md to
# /verif/seeded/<id>/ and writes meta.json (detection is added by fill_meta.py).
export GOFLAGS=-mod=mod GOPROXY=off GOSUMDB=off GOTOOLCHAIN=local
SID=$1; WT=$2; DEMO=$3; PROP=${SID:0:3}
PKGS="./server/... ./agent/banner/... ./agent/metrics/... ./agent/sessions/... ./agent/utils/... ./agent/websockets/... ./utils/... ./app/..."
cd $WT || exit 2
cp patch.diff /tmp/patch_$SID.diff; cp $DEMO /tmp/demo_$SID.go; cp NOTES.md /tmp/notes_$SID.md 2>/dev/null
git checkout -q -- . ; git clean -fdq
D=$(dirname $DEMO)
RUN=$(grep -o '^func Test[A-Za-z0-9_]*' /tmp/demo_$SID.go | sed 's/func //' | paste -sd'|')
DEMOCMD="go test -vet=off -count=1 -timeout 5m -run '^($RUN)\$' ./$D/"
cp /tmp/demo_$SID.go $D/zz_seed_demo_test.go
if eval $DEMOCMD > /tmp/confirm_$SID.pristine.log 2>&1; then P=pass; else P=FAIL; fi
rm $D/zz_seed_demo_test.go
if git apply /tmp/patch_$SID.diff; then A=true; else A=false; fi
TOUCHED=$(git diff --name-only | paste -sd,)
if go build ./... >/tmp/confirm_$SID.build.log 2>&1; then B=true; else B=false; fi
if go test -vet=off -count=1 -timeout 20m $PKGS > /tmp/confirm_$SID.tests.log 2>&1; then T=pass; else T=FAIL; fi
cp /tmp/demo_$SID.go $D/zz_seed_demo_test.go
if eval $DEMOCMD > /tmp/confirm_$SID.patched.log 2>&1; then W="PASS(!)"; else W=fail; fi
rm $D/zz_seed_demo_test.go
git checkout -q -- . ; git clean -fdq
echo "$SID pristine=$P applies=$A builds=$B tests=$T with_patch=$W touched=$TOUCHED"
if [ $P = pass ] && [ $A = true ] && [ $B = true ] && [ $T = pass ] && [ $W = fail ] && ! echo "$TOUCHED" | grep -q _test.go; then
  mkdir -p /verif/seeded/$SID
  cp /tmp/patch_$SID.diff /verif/seeded/$SID/patch.diff
  cp /tmp/demo_$SID.go /verif/seeded/$SID/demo_test.go
  cp /tmp/notes_$SID.md /verif/seeded/$SID/notes.md 2>/dev/null
  python3 - "$SID" "$PROP" "$D" "$RUN" "$TOUCHED" "$DEMOCMD" "$PKGS" <<'EOF'
import json,sys,time
sid,prop,d,run,touched,democmd,pkgs=sys.argv[1:]
ex="\n".join([l for l in open('/tmp/confirm_%s.patched.log'%sid).read().splitlines() if 'FAIL' in l or 'demo' in l.lower() or 'Error' in l][:8])
notes=""
try: notes=open('/verif/seeded/%s/notes.md'%sid).read()
except Exception: pass
meta={"id":sid,"property":prop,"demo_dir":d,"demo_run":run,"confirmed_at":time.strftime("%Y-%m-%dT%H:%M:%SZ",time.gmtime()),
 "base_commit":"HEAD of /repo (pinned tree + fix: commits)","demo_on_pristine":"pass","patch_applies":True,"files_touched":touched.split(','),
 "touches_tests":False,"builds":True,"existing_tests":"pass","demo_with_patch":"fail","demo_failure_excerpt":ex,"confirmed":True,
 "ran":["demo without the patch: "+democmd,"git apply patch.diff; go build ./...; go test -vet=off -count=1 "+pkgs,"demo with the patch: "+democmd],
 "needs_to_manifest":notes[:1500]}
json.dump(meta,open('/verif/seeded/%s/meta.json'%sid,'w'),indent=1)
EOF
  echo "$SID CONFIRMED"
else
  echo "$SID NOT CONFIRMED (logs /tmp/confirm_$SID.*.log)"
fi
