#!/bin/bash
# usage: try_patch.sh <patch.diff> <ID> [tier] [extra vcheck args]
# Applies a seeded change to /repo, runs the check, and always reverts.
# Seeded patches were made against the pinned commit; when a later "fix:" commit
# touches the same lines the patch is applied with a 3-way merge and, on
# conflict, the seeded side wins for the conflicting hunks.
P=$(readlink -f "$1"); ID=$2; TIER=${3:-quick}
if [ $# -ge 3 ]; then shift 3; else shift $#; fi
cd /repo || exit 3
if [ -n "$(git status --porcelain)" ]; then echo "/repo is not clean"; exit 3; fi
restore() { git -C /repo reset -q --hard HEAD; git -C /repo clean -fdq; }
trap restore EXIT
if ! git apply "$P" 2>/dev/null; then
  if ! git apply --3way "$P" >/dev/null 2>&1; then
    for f in $(git diff --name-only --diff-filter=U); do git checkout --theirs -- "$f"; git add "$f"; done
  fi
  git reset -q
  echo "(patch applied with 3-way merge)"
fi
if ! (export GOFLAGS=-mod=mod GOPROXY=off GOSUMDB=off GOTOOLCHAIN=local; go build ./... ) >/dev/null 2>&1; then echo "patched tree does not build"; exit 3; fi
cd /verif && ./bin/vcheck run $ID --tier $TIER "$@"
echo "exit=$?"
