#!/bin/bash
# usage: try_patch.sh <patch.diff> <ID> [tier] [extra vcheck args]
# Applies a seeded change to /repo, runs the check, and always reverts.
P=$(readlink -f "$1"); ID=$2; TIER=${3:-quick}; shift 3
git -C /repo apply "$P" || { echo "patch does not apply"; exit 3; }
trap 'git -C /repo checkout -- . ' EXIT
cd /verif && ./bin/vcheck run $ID --tier $TIER "$@"
echo "exit=$?"
