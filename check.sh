#!/bin/bash
# usage: check.sh <ID> <quick|thorough>   (cwd: /verif)
# Rebuilds the engine if needed, then runs the check; the encoding of /repo is
# regenerated from its current working tree on every run.
cd "$(dirname "$0")"
export GOFLAGS=-mod=mod GOPROXY=off GOSUMDB=off GOTOOLCHAIN=local
if [ ! -x bin/vcheck ] || [ -n "$(find engine -newer bin/vcheck -name '*.go' 2>/dev/null | head -1)" ]; then
  ./setup.sh >/dev/null || exit 2
fi
exec ./bin/vcheck run "$1" --tier "${2:-${VERIF_TIER:-quick}}"
