#!/bin/bash
# Builds the verification framework offline from files on disk only.
set -e
export GOFLAGS=-mod=mod GOPROXY=off GOSUMDB=off GOTOOLCHAIN=local
cd "$(dirname "$0")/engine"
mkdir -p ../bin
go build -o ../bin/vcheck .
echo "vcheck built"
# engine self-tests (interpreter, environment models, happens-before monitor)
cd .. && ./bin/vcheck run SELF > .selftest.log 2>&1 || { echo "engine self-tests FAILED"; tail -20 .selftest.log; exit 1; }
echo "engine self-tests passed"
