#!/bin/bash
# Builds the verification framework offline from files on disk only.
set -e
export GOFLAGS=-mod=mod GOPROXY=off GOSUMDB=off GOTOOLCHAIN=local
cd "$(dirname "$0")/engine"
mkdir -p ../bin
go build -o ../bin/vcheck .
echo "vcheck built"
